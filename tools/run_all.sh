#!/bin/bash
# tools/run_all.sh [tier] [seed]  - run every check, print a summary line per property
cd "$(dirname "$(readlink -f "$0")")/.." || exit 2
tier=${1:-quick}; seed=${2:-0}
mkdir -p .work
rc=0
for id in C01 C02 C03 C04 C05 C06 C07 C08 C09 C10 C11 C12 C13 C14 C15 C16 C17 C18 C19 C20; do
  t0=$(date +%s)
  VERIF_SEED=$seed timeout 14400 ./check $id --tier $tier > .work/run_$id.log 2>&1
  e=$?
  t1=$(date +%s)
  echo "$id exit=$e wall=$((t1-t0))s $(tail -1 .work/run_$id.log | cut -c1-200)"
  grep -h "^VIOLATION\|^HARNESS\|^KNOWN" .work/run_$id.log | head -5
  [ $e -ne 0 ] && rc=1
done
exit $rc
