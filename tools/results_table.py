#!/usr/bin/env python3
"""Print a markdown table of the current evidence files (for DESIGN.md section 8)."""
import json, glob, os
V = os.path.dirname(os.path.dirname(os.path.abspath(__file__)))
print('| id | tier | states | transitions | cases | evaluations | skipped | distinct non-trivial | traces vs impl | known | wall s |')
print('|---|---|---|---|---|---|---|---|---|---|---|')
for f in sorted(glob.glob(os.path.join(V, 'evidence', 'C*.json'))):
    e = json.load(open(f)); c = e['coverage']
    print('| %s | %s | %d | %d | %d | %d | %d | %d | %d | %d | %.0f |' % (e['property_id'], e['tier'], c['states'], c['transitions'],
          c.get('cases', 0), c['evaluations'], c.get('skipped_precondition', 0), c['distinct_nontrivial'],
          c['traces_validated_against_impl'], len(c.get('known_findings_hit', [])), e['wall_s']))
