# Per-property MANIFEST texts (a property is claimed once bcmc/props/<id>.py exists).
T = 'bounded-exhaustive explicit-state enumeration on the real code vs reference model'
P = {
 'C01': dict(
    text='All words of the waveform alphabet (W(6,5) quick; W(10,5), W(6,6) thorough) are run through compute_features and '
         'Bycycle.fit under every option set with <= 1 (quick) / <= 2 (thorough) deviations from the default plus the full '
         'option product on W(4,5); every returned table is checked for the ordering / tiling / alternation / boundary '
         'invariants and for genuine extremum kinds against the C02 reference. Preconditions come from the reference model, '
         'so a raise inside the precondition is a violation. One set of option objects is reused for every call of a case (second fit, second call); inputs also come as strided views, integer dtype, riding on steep drifts and in lengths 36..60 incl. primes. Scale axis: four long real-valued recordings (up to 70000 samples / 1430 cycles, fs 500..2000 incl. 1017.25) x centring x method, and 5-letter words cut down to one- and two-row tables. Also constant stretches at a non-zero level and the amplitude method with a minimum burst duration. Wave 8: the same array object is fitted again after find_extrema_kwargs[\'boundary\'] was edited in place on the object, and the table is checked against the boundary then in force.',
    note='signals = words over integer waveform letters x global transforms (6 decades of scale, DC, negation); neurodsp filter trusted',
    technique='bounded-exhaustive enumeration of words x option deviations (deviation-bounded) on the real pipeline'),
 'C02': dict(
    text='Every signal in {-1,0,1}^10 (quick) / {-1,0,1}^12 and {-2..2}^8 (thorough) under a 5- or 9-tap band-pass, and every '
         'word of the waveform alphabet, is run through the real find_extrema for all pad x boundary x first_extrema x '
         'filter combinations and compared index-for-index with a reference half-wave model; complete enumeration gives '
         'all tie / plateau / window-edge patterns that sampled signals miss. Scale axis: a 70000-sample recording cut at each of 64 (200) start offsets plus three more long recordings; the reference now also decides first_extrema trimming when a single peak or trough is left. Wave 8: every 8-sample signal over {type minimum, middle, type maximum} in int8 / int16 / uint8 (clipped integer traces).',
    note='neurodsp filter_signal trusted; inputs with no crossing in one direction skipped (undefined by the property)',
    technique='bounded-exhaustive enumeration of input signals on the real code vs reference model'),
 'C03': dict(
    text='Every signal of length 2..6 (quick) / 2..7 (thorough) over {-1,0,1,2} with every alternating peak/trough index '
         'sequence, plus the extrema sequences find_extrema yields on every word, is run through find_zerox and compared '
         'with a half-height-crossing reference (median rule, inverted and all-zero fallbacks). Scale axis: every flank length 2..130 (260) x every crossing position x rise / decay x 1 or 3 crossings, and the flanks of four long recordings.',
    note='temporal centre accepted when the level is never crossed in the flank direction (left open by the property)',
    technique=T),
 'C04': dict(
    text='For every word x centring x samples on/off x filter/boundary deviation each shape column of the returned table is '
         'recomputed from the row\'s own sample columns and the original signal (definitions written by hand for both '
         'centrings, independent of rename_extrema_df); the four shape helper functions are additionally driven with '
         'every synthetic cyclepoint table over small integer signals. Extra spaces: one pre-allocated array analysed twice with different content, integer-dtype signals with odd flank sums, signal lengths 36..60 incl. primes, drifting signals. Also: words with exact-zero stretches, tables of compute_features_3d against the signal at their own position, rows returned by limit_df (half-sample starts) against the definitions.',
    note='band_amp compared against neurodsp amp_by_time (trusted) averaged over [last, next)',
    technique=T),
 'C05': dict(
    text='Each burst-feature function is driven with every small table over value alphabets containing ties, zeros, '
         'negatives and NaN (amp consistency: all (rise, decay) tables up to 3/4 cycles x 3 directions x 2 centrings; '
         'period consistency, amp fraction, monotonicity on all small signals x all cyclepoint triples) and compared '
         'with a temporal-flank-sequence reference; pipeline tables of all words are checked too. Scale axis: long recordings (tables of 660 / 1430 rows) and tables of up to 6007 (20011) distinct amplitudes spaced 2**-30..2**-45 apart. The consistency columns are also checked after recompute_edges (edge oracle of C16) and without sample columns.',
    note='float compare rtol 1e-9; [0,1] range checked only where the flank voltages are positive',
    technique=T),
 'C06': dict(
    text='detect_bursts_cycles is run on every synthetic table of <= 4 / 5 cycles over 13 threshold-relative profiles '
         '(values exactly on, just below, NaN) x min_n_cycles x 2 threshold vectors, on the complete {below,at,above,NaN}^4 '
         'relation product, and on the pipeline tables of all words over the complete threshold REGION grid (every order '
         'relation between threshold and column values) with monotone-chain checks; all against a threshold-and-run reference. min_n_cycles 0..4 and each threshold at 0 / 1 are also routed through compute_features; tables handed in are already labelled. Scale axis: synthetic tables with up to 1025 (4096) runs of qualifying cycles and volt_amp over ten decades, words with giant cycles; per-epoch option lists of compute_features_2d(axis=None). Thresholds through the objects (short names, partial dictionaries) and per-signal threshold lists of compute_features_3d are routed to the same rule. Wave 8: one Bycycle object, the same array fitted after each of seven in-place threshold edits (raise and lower), rule and monotonicity checked each time.',
    note='region abstraction makes "all thresholds in [0,1]" finite; one (quick) or two (thorough) thresholds leave the default at a time',
    technique=T),
 'C07': dict(
    text='For every word x centring x amp_threshes x the 16 routes of min_n_cycles (thresholds / burst options / both / neither) '
         'x min_burst_duration, burst_fraction is recomputed as the inclusive-window mean of the neurodsp dual-threshold mask '
         'called with the one effective minimum, and labels as the run filter with the same minimum over the full region '
         'grid of burst_fraction_threshold. Includes min_burst_duration 0, minimum 0, and one pre-allocated array analysed twice with different content. Scale axis: burst_fraction columns with up to 1025 (4096) runs, long recordings; also row subsets of a table and extrema filter settings that must not reach the detector. Per-epoch option lists with the amplitude method (entries without thresholds take the defaults).',
    note='neurodsp detect_bursts_dual_threshold trusted as the sample-wise detector',
    technique=T),
 'C08': dict(
    text='Every boolean array of length <= 12 (quick) / 16 (thorough) x every min_n_cycles is run through the real '
         'check_min_burst_cycles and compared with a run-length reference, plus idempotence and mirror symmetry; '
         'the space is the complete binary prefix tree, so the coverage statement is "no array up to the bound '
         'violates the rule". Scale axis: run COUNTS 96..139, 250..263, 508..517, 1020..1029 (more in thorough) x 5 run-length patterns x 4 endings x thresholds 2..5. The filter is also exercised through its public callers (detect_bursts_cycles / _amp on every pattern of <= 9 cycles, compute_features with the amplitude method).',
    note='numpy bool arrays, fresh copy per call; min_n_cycles in 0..len+1 plus two non-integers',
    technique='explicit-state enumeration of the binary prefix tree on the real function vs reference model'),
 'C09': dict(
    text='Differential, exact: for every word x option set compute_features(x, trough) is compared with '
         'compute_features(-x, peak) mapped through a hand-written column map; integer columns, labels and floats must be '
         'identical (negation commutes exactly with IEEE arithmetic). The mirror is checked again after recompute_edges (7-letter words) and for integer / int16-near-full-scale / drifting inputs. Also every 7 (9) samples over {-1,0,1} embedded between regular cycles (ties between extrema voltages), the epoch tables of compute_features_2d(axis=None), and four long recordings. Also per-signal option lists of compute_features_2d and sample-free objects that were loaded before being fitted. Wave 8: one set of option objects (empty burst-option dict included) shared by the peak, trough, peak calls of every case.',
    note='implementation vs implementation under an exactly commuting transformation; both burst methods',
    technique='bounded-exhaustive metamorphic enumeration on the real code'),
 'C10': dict(
    text='Differential, exact: every word x option set is re-analysed with the signal scaled by 2^k (k in -10,-3,1,10) and '
         'with (fs, f_range) multiplied by 1/2, 2, 4 (filter length in cycles); index / ratio columns and labels must be '
         'identical and voltage columns scaled exactly. One option object is reused across the re-scaled and re-rated calls; scales 2^-50..2^40; every {-1,0,1}^9 (quick) / ^12 (thorough) signal at cyclepoint level under a 9-tap filter (filter-length sensitive). Rate factors up to 128 (fs = 8192 Hz), a band 0.5 Hz wide at fs = 16 Hz, band variants, and long recordings at fs 1000 / 500 / 1017.25. Also re-used burst options that carry a stale fs / f_range, and covariance after an analysis of the same band at an 8 x lower rate (50 start offsets). Wave 8: scale factors 2**-300, 2**-140, 2**130, 2**300 on a 300000-sample and a 6000-sample recording and a word, both methods.',
    note='powers of two only, so floating point commutes exactly and equality cannot flake',
    technique='bounded-exhaustive metamorphic enumeration on the real code'),
 'C11': dict(
    text='TLC enumerates all reachable states of a TLA+ model of Pool.imap dispatch/completion; every terminal completion '
         'order is replayed against compute_features_2d / BycycleGroup.fit in a deterministic VirtualPool (pickle boundary '
         'kept) and re-enacted in real worker processes by gating task completion; each result must equal the per-row '
         'analysis for every rows x option list x n_jobs x progress combination. Option kinds: none / shared dict / per-row list / one dict object repeated; C- and Fortran-ordered inputs; the group entry first edits an unrelated default object and uses filter-sensitive rows. Scale axis: 12 short rows and 16 rows of 8200 samples (array > 1 MB) through the function and BycycleGroup, per-row lists, rows in different physical units, thresholds one floating-point step from a data value.',
    note='schedules exhaustive for <= 4 (quick) / 5 (thorough) tasks; worker start order / spawn start method not modelled',
    technique='TLC explicit-state model checking of the scheduling model + exhaustive trace replay against the implementation'),
 'C12': dict(
    text='All shapes (n0,n1) in {1,2,3}^2 incl. non-square and size-1 x the three axis modes x shared / 1-D / 2-D option lists x '
         'n_jobs x every feasible completion order of the outer pool are run through compute_features_3d and '
         'BycycleGroup.fit; each slot must hold the analysis (per-signal or epoched reference) of the signal at that position. Also: one dict object repeated, Fortran-ordered arrays, progress set, and a second fit on the same group object. Scale axis: a (2, 33, 48) array (33 slices along axis 1) and a (2, 5, 14000) array (flattened slices longer than 2**16 samples); repeated signals with different per-signal options; amp-method groups. The VirtualPool takes chunksize items before serialising a batch, as multiprocessing does. Wave 8: group-refit fits the very array object of the final fit first in another axis mode.',
    note='outer-pool completion orders from the TLC model; epoched reference shared with C13',
    technique='TLC scheduling model + exhaustive trace replay; exhaustive shape x axis x option grid'),
 'C13': dict(
    text='epoch_df is run on every synthetic cyclepoint table (T=12/14, both centrings) x every epoch length, and '
         'compute_features_2d(axis=None) on every word reshaped into epochs of 4..24 samples x option kinds; rows must '
         'partition the flattened analysis exactly once, in order, shifted by the epoch start, with labels per the rule. Option kinds: none / dict / per-epoch list / one dict object repeated / list with entries that omit thresholds; C- and Fortran-ordered arrays; 80-sample words in 40-sample epochs so that per-epoch labels can differ. Scale axis: epoch_df on synthetic tables of 1100 (2100) cycles with closing extrema on the borders; words declared at fs 49 / 173.61 / 1017.25 / 9.8 / 250 Hz x every epoch length (sample-count <-> seconds round trips). Border cases follow the anchored half-open (first, last] rule. Lists whose last entry differs in options that shape the flattened analysis, sparse lists for both methods, positive amp_fraction thresholds. Wave 8: trough-centred option lists are passed a second time as the same list object and the second answer is compared.',
    note='closing extremum exactly on an epoch boundary may sit in either adjacent epoch',
    technique=T),
 'C14': dict(
    text='Explicit-state BFS over operation histories (fit on two signals, recompute_edges, threshold and burst-option '
         'edits, load) on a live Bycycle object, depth 3 / 5, from 16+ initial configurations; after every fit the table '
         'must equal compute_features with the settings ledger and a fresh object; BycycleGroup.models mirror is checked '
         'over shapes x axes. Operations include an in-place edit of a nested find_extrema_kwargs setting (with a check that freshly constructed objects still carry the documented defaults) and attribute access after every table-replacing operation. Also objects built with return_samples=False (interaction with recompute_edges). Partial threshold dictionaries as initial configurations. Wave 8: every history keeps ONE array object per recording (objects and groups), so identity-keyed shortcuts in fit are reachable.',
    note='state = settings ledger + live attribute dicts + table hash; histories replayed on fresh objects',
    technique='explicit-state BFS over operation histories with canonical state hashing on the real objects'),
 'C15': dict(
    text='Fixpoint closure: ~35 API calls sharing one set of argument objects are applied from the pristine state; a pure '
         'implementation maps the pristine fingerprint to itself, so the reachable state space is one state and the '
         'statement holds for histories of every length; all ordered pairs (quick) / triples (thorough) over a core are '
         'executed and compared with fresh-state results. The alphabet includes default-argument calls, a burst-free table, and a caller-owned buffer overwritten in place between calls. The shared argument set is built once in a separate process, so every history starts from import-time module state; the alphabet includes equal-valued twin calls (distinct string / dict objects), near-identical long inputs, fractional bands / rates, tables from gated signals, and numpy\'s small-block cache is poisoned with a step-dependent value before every call (uninitialised reads become history-dependent). A re-used analysis object (fit, recompute_edges, fit) and a rename-chain twin (table rebuilt from plain values) are part of the alphabet. Wave 8: calls on recordings with NaN / +-inf samples (outcome free, arguments must stay untouched).',
    note='fingerprint covers arrays, dicts, tables, pandas chained-assignment option, open figures',
    technique='explicit-state closure (BFS to fixpoint) over API calls on shared argument objects'),
 'C16': dict(
    text='recompute_edges is run on every synthetic burst layout of <= 5 / 6 cycles (5 cycle kinds, 2 monotonicities) x '
         'threshold menu x reductions x both centrings, and on pipeline tables of bursty words; edge values must equal the '
         'one-sided reference, everything else (and the input table) must be unchanged, labels must follow the rule on the '
         'edited table. Burst-free tables are included (no edges: only re-labelling, input untouched, result a new object). Scale axis: synthetic tables with 127..272 (530) bursts, long recordings with reductions .1 and .005 through function and object; sample-free tables (known finding for peak centring). Layouts with negative (reversed) flank voltages.',
    note='a cycle that is both an end and a start edge may carry either one-sided value',
    technique=T),
 'C17': dict(
    text='extrema_interpolated_phase is run on every alternating extremum placement (gaps >= 2) on arrays of length <= 10 / 13 '
         'with every midpoint placement (coincidences included) and on the cyclepoints of all words x boundary x '
         'first_extrema; anchors, range, NaN span and monotonicity are checked on every sample. Midpoint arguments also one-sided (only rises / only decays) and before the first / after the last extremum. Scale axis: cyclepoints exactly L samples apart for every L = 2..400 (1200), and a 66000-sample recording with a cyclepoint every 25 samples in all 100 alignments. The signal argument carries NaN / inf values (only its length may matter); words riding on steep slopes.',
    note='tolerance 1e-12 on anchor values',
    technique=T),
 'C18': dict(
    text='limit_df on every synthetic cyclepoint table (T=9/12) x both centrings x every (start, stop) pair on the half-sample '
         'grid incl. None x reset_indices x fs; limit_signal on every time axis <= 8 samples; split/drop on pipeline tables; '
         'flatten_dfs on every 1-D and 2-D list shape - all against selection references. Time axes include negative times. Also time stamps of 100..86400 s at 1 / 30 kHz, labels shared by several tables, limits on the half-sample grid. Time axes with NaN stamps.',
    note='whether partially overlapping cycles are kept is left open (docstring and code disagree)',
    technique=T),
 'C19': dict(
    text='The complete array-shape x axis x option-list-shape grid (~1200 cells) is run through check_kwargs_shape and the '
         'real group functions against a hand-written accept/reject table; every documented scalar parameter is probed '
         'just outside / on / just inside each end of its range through every entry point; every enumerated option with an '
         'unknown value. Also invalid settings on degenerate inputs (tables of 0 / 1 / 2 rows, empty arrays), near-miss strings, singleton-axis shapes and many signals per worker.',
    note='decision table written from the docstrings; which layer raises ValueError is not prescribed',
    technique='exhaustive configuration-grid enumeration on the real code vs decision table'),
 'C20': dict(
    text='Plots are drawn (Agg) for tables of bursty words x centrings x fs x every x-limit pair on a sample grid x plot '
         'switches; Line2D data is read back: every marker must be a genuine cyclepoint of its kind at (s/fs, signal[s]), '
         'every cyclepoint strictly inside the view present, the burst highlight within / covering is_burst cycles, '
         'parameter panels at cycle centres with the threshold line. Scale axis: a 140000-sample recording at fs = 1000 (full view and windows at 10 / 110 / 119 s). A saw-tooth word with one-sample flanks; quick windows starting at samples 29 / 57 / 58 (float residue of start * fs). Wave 8: thresholds that two decimals cannot represent (.125, .4375, .515625, .609375; .46875 for amp), so a line drawn at a rounded threshold shows.',
    note='artist data, not pixels',
    technique=T),
}
