#!/usr/bin/env python3
"""Regenerate MANIFEST.json from the table below (run after adding a property module)."""
import json, os
V = os.path.dirname(os.path.dirname(os.path.abspath(__file__)))
import sys
sys.path.insert(0, os.path.dirname(os.path.abspath(__file__)))
from entries import P
PENDING = {}
props = [json.loads(l) for l in open(os.path.join(V, 'properties.jsonl'))]
checks, na = [], []
for p in props:
    pid = p['id']
    if pid in P and os.path.exists(os.path.join(V, 'bcmc', 'props', pid + '.py')):
        d = P[pid]
        checks.append({
            'property_id': pid,
            'quick_cmd': './check %s --tier quick' % pid,
            'thorough_cmd': './check %s --tier thorough' % pid,
            'evidence_file': '/verif/evidence/%s.json' % pid,
            'replay_cmd_template': './check %s --replay {path}' % pid,
            'engine': 'bcmc',
            'level_claimed': {'category': 'model_checking', 'text': d['text'], 'design_ref': 'DESIGN.md section 4 %s' % pid},
            'level_note': d['note'],
            'technique': d['technique'],
        })
    else:
        na.append({'property_id': pid, 'reason': PENDING.get(pid, 'check not built yet (work in progress; see DESIGN.md section 4 for the planned bounded-exhaustive procedure)')})
m = {
 'version': 1,
 'setup_cmd': 'cd /verif && ./tools/setup.sh',
 'hooks': {'guard': 'BYCYCLE_VERIF', 'enable': 'none needed: checks import /repo (editable install) and rebind module attributes from outside; ./check exports BYCYCLE_VERIF=1',
           'baseline_off_cmd': 'cd /repo && env -u BYCYCLE_VERIF /venv/bin/python -m pytest -q -p no:cacheprovider --timeout=900 --continue-on-collection-errors',
           'source_commits': [], 'add_only': True},
 'engines': [{'name': 'bcmc', 'path': '/verif/bcmc', 'serves_properties': [c['property_id'] for c in checks],
              'kind_free_text': 'hand-written bounded-exhaustive explorer (prefix-tree / BFS enumeration over the real Python code, 16 forked workers, reference models in plain Python) + TLC for the Pool scheduling model'}],
 'checks': checks,
 'not_applicable': na,
 'notes': 'All checks: ./check <ID> --tier quick|thorough ; replay: ./check <ID> --replay <file>. Known findings: /verif/known_findings.json.',
}
json.dump(m, open(os.path.join(V, 'MANIFEST.json'), 'w'), indent=1)
print('checks:', [c['property_id'] for c in checks], 'na:', len(na))
