#!/usr/bin/env python3
"""tools/mutant.py <dir-with-patch.diff[+demo.py]> <property-id> [more ids...] [--tier quick]

Applies the patch to a scratch worktree of /repo (outside /repo and /verif), checks that the pinned baseline
tests still pass, that the demonstration fails with the change and passes without it, runs the given checks
against the changed copy (BCMC_REPO) with evidence / replays redirected (BCMC_OUT), prints a JSON summary and
removes the worktree.  /repo itself is never modified."""
import json, os, re, shutil, subprocess, sys, tempfile, time
V = os.path.dirname(os.path.dirname(os.path.abspath(__file__)))
BASE = json.load(open('/root/.vp/BASELINE.json'))['stable_pass']

def sh(cmd, **kw):
    return subprocess.run(cmd, shell=True, capture_output=True, text=True, **kw)

def main():
    args = [a for a in sys.argv[1:] if not a.startswith('--')]
    tier = 'quick'
    if '--tier' in sys.argv:
        tier = sys.argv[sys.argv.index('--tier') + 1]
        args = [a for a in args if a != tier]
    d, props = os.path.abspath(args[0]), args[1:]
    patch = os.path.join(d, 'patch.diff')
    name = os.path.basename(d.rstrip('/'))
    root = tempfile.mkdtemp(prefix='mut_', dir='/tmp')
    wt = os.path.join(root, 'repo')
    out = {'seed': name, 'checks': {}}
    try:
        r = sh('git -C /repo worktree add --detach %s HEAD' % wt)
        assert r.returncode == 0, r.stderr
        r = sh('git -C %s apply --whitespace=nowarn %s' % (wt, patch))
        out['patch_applies'] = r.returncode == 0
        if r.returncode != 0:
            out['apply_error'] = r.stderr[-400:]
            return out
        if '--skip-tests' not in sys.argv:
            junit = os.path.join(root, 'junit.xml')
            r = sh('cd %s && OMP_NUM_THREADS=1 OPENBLAS_NUM_THREADS=1 MKL_NUM_THREADS=1 timeout 1500 /venv/bin/python -m pytest -q -p no:cacheprovider --timeout=900 --continue-on-collection-errors --junitxml=%s 2>&1 | tail -1' % (wt, junit))
            out['pytest_summary'] = r.stdout.strip()
            import xml.etree.ElementTree as ET
            passed = set()
            for tc in ET.parse(junit).getroot().iter('testcase'):
                if not list(tc):
                    passed.add('%s::%s' % (tc.get('classname'), tc.get('name')))
            out['baseline_34_pass'] = all(b in passed for b in BASE)
            out['baseline_missing'] = [b for b in BASE if b not in passed][:5]
        demo = os.path.join(d, 'demo.py')
        if os.path.exists(demo):
            r1 = sh('cd %s && PYTHONPATH=%s /venv/bin/python demo.py' % (d, wt), timeout=600)
            r0 = sh('cd %s && PYTHONPATH=/repo /venv/bin/python demo.py' % d, timeout=600)
            out['demo_fails_with_change'] = r1.returncode != 0
            out['demo_passes_without_change'] = r0.returncode == 0
            out['demo_msg'] = (r1.stderr or r1.stdout)[-300:]
        for pid in props:
            od = os.path.join(root, 'out')
            t0 = time.time()
            r = sh('cd %s && BCMC_REPO=%s BCMC_OUT=%s timeout 3600 ./check %s --tier %s' % (V, wt, od, pid, tier))
            viol = [l for l in r.stdout.splitlines() if l.startswith('VIOLATION')]
            detail = [l.strip()[:300] for l in r.stdout.splitlines() if l.startswith('    {')][:3]
            out['checks'][pid] = {'exit': r.returncode, 'violations': len(viol), 'detail': detail, 'wall_s': round(time.time() - t0, 1),
                                  'harness_error': [l[:300] for l in r.stdout.splitlines() if l.startswith('HARNESS')][:2]}
        return out
    finally:
        sh('git -C /repo worktree remove --force %s' % wt)
        shutil.rmtree(root, ignore_errors=True)
        print(json.dumps(out, indent=1))

if __name__ == '__main__':
    main()
