#!/bin/bash
# Offline setup: nothing to build (pure Python run from /verif against /repo); sanity-check the tools.
cd "$(dirname "$(readlink -f "$0")")/.." || exit 1
chmod +x check tools/*.sh tools/*.py 2>/dev/null
mkdir -p evidence replays .work
/venv/bin/python -c "import bycycle, numpy, pandas, neurodsp, matplotlib; print('bycycle from', bycycle.__file__)" || exit 1
command -v tlc >/dev/null && echo "tlc present" || echo "tlc absent (Python enumerator fallback will be used)"
exit 0
