#!/bin/bash
# tools/ingest_many.sh <suffix-list e.g. "5 6"> [props...]   - ingest /tmp/wt/<P>/out/<P>_<k> for all given properties, 3 at a time
cd "$(dirname "$(readlink -f "$0")")/.." || exit 2
ks=$1; shift
props=${@:-C01 C02 C03 C04 C05 C06 C07 C08 C09 C10 C11 C12 C13 C14 C15 C16 C17 C18 C19 C20}
for p in $props; do for k in $ks; do [ -d /tmp/wt/$p/out/${p}_$k ] && echo "$p ${p}_$k"; done; done | \
 xargs -P 3 -L 1 bash -c 'timeout 3000 tools/ingest.py /tmp/wt/$0/out/$1 $0 2>&1 | python3 -c "
import json,sys
try:
    d=json.load(sys.stdin); print(d[\"seed\"],\"valid\" if d[\"valid\"] else \"INVALID\",d[\"pytest\"][:28] if d.get(\"pytest\") else None,d[\"demo\"],d[\"detected\"],str(d[\"detail\"])[:220])
except Exception as e: print(\"ERR\", e)
"'
