#!/usr/bin/env python3
"""tools/run_catalogue.py [M01 M02 ...] - build each catalogue mutant as a patch, run tools/mutant.py on it (baseline tests +
the expected properties' quick checks), append one JSON line per mutant to mutants/results.jsonl."""
import json, os, subprocess, sys, tempfile, shutil
V = os.path.dirname(os.path.dirname(os.path.abspath(__file__)))
sys.path.insert(0, os.path.join(V, 'mutants'))
from catalogue import M
want = set(a for a in sys.argv[1:] if not a.startswith('--'))
for mid, props, path, old, new in M:
    if want and mid not in want:
        continue
    src = open(os.path.join('/repo', path)).read()
    if src.count(old) != 1:
        print(json.dumps({'seed': mid, 'error': 'pattern occurs %d times' % src.count(old)})); continue
    d = tempfile.mkdtemp(prefix='cat_%s_' % mid, dir='/tmp')
    try:
        a = os.path.join(d, 'a'); b = os.path.join(d, 'b')
        for r, txt in ((a, src), (b, src.replace(old, new))):
            os.makedirs(os.path.dirname(os.path.join(r, path))); open(os.path.join(r, path), 'w').write(txt)
        diff = subprocess.run(['diff', '-u', os.path.join('a', path), os.path.join('b', path)], cwd=d, capture_output=True, text=True).stdout
        pd = os.path.join(d, mid); os.makedirs(pd); open(os.path.join(pd, 'patch.diff'), 'w').write(diff)
        r = subprocess.run([os.path.join(V, 'tools', 'mutant.py'), pd] + props, capture_output=True, text=True)
        try:
            res = json.loads(r.stdout)
        except Exception:
            res = {'seed': mid, 'error': (r.stdout + r.stderr)[-500:]}
        res['expected'] = props
        res['detected'] = {p: c['exit'] == 1 and c['violations'] > 0 for p, c in res.get('checks', {}).items()}
        line = json.dumps(res)
        print(json.dumps({k: res.get(k) for k in ('seed', 'baseline_34_pass', 'pytest_summary', 'detected')}), flush=True)
        open(os.path.join(V, 'mutants', 'results.jsonl'), 'a').write(line + '\n')
    finally:
        shutil.rmtree(d, ignore_errors=True)
