#!/usr/bin/env python3
"""tools/ingest.py <out-dir of a sub-agent seed> <property-id> [extra property ids]
Confirms the seed independently (baseline tests, demo with/without the change) via tools/mutant.py, runs the owning
check(s) against it and, if the seed is valid, stores it as /verif/seeded/<name>/ (patch.diff, demo.py, meta.json)."""
import json, os, shutil, subprocess, sys
V = os.path.dirname(os.path.dirname(os.path.abspath(__file__)))
src = os.path.abspath(sys.argv[1]); props = sys.argv[2:]
name = os.path.basename(src.rstrip('/'))
r = subprocess.run([os.path.join(V, 'tools', 'mutant.py'), src] + props, capture_output=True, text=True)
res = json.loads(r.stdout)
valid = res.get('patch_applies') and res.get('baseline_34_pass') and res.get('demo_fails_with_change') and res.get('demo_passes_without_change')
meta = {}
if os.path.exists(os.path.join(src, 'meta.json')):
    try:
        meta = json.load(open(os.path.join(src, 'meta.json')))
    except Exception:
        meta = {'note': 'agent meta.json unreadable'}
meta['confirmed_by_me'] = {'what_i_ran': 'tools/mutant.py: patch applied to a scratch worktree of /repo HEAD; repository test-suite; demo.py with and without the change; ./check <id> --tier quick with BCMC_REPO=<worktree>',
                           'patch_applies': res.get('patch_applies'), 'pytest_summary': res.get('pytest_summary'),
                           'baseline_34_pass': res.get('baseline_34_pass'), 'demo_fails_with_change': res.get('demo_fails_with_change'),
                           'demo_passes_without_change': res.get('demo_passes_without_change'), 'valid_seed': bool(valid)}
meta['detection'] = {p: {'detected': c['exit'] == 1 and c['violations'] > 0, 'exit': c['exit'], 'wall_s': c['wall_s'], 'first_violations': c['detail']}
                     for p, c in res.get('checks', {}).items()}
print(json.dumps({'seed': name, 'valid': bool(valid), 'pytest': res.get('pytest_summary'), 'demo': [res.get('demo_fails_with_change'), res.get('demo_passes_without_change')],
                  'detected': {p: d['detected'] for p, d in meta['detection'].items()},
                  'detail': {p: d['first_violations'][:1] for p, d in meta['detection'].items()}}, indent=1))
if valid:
    dst = os.path.join(V, 'seeded', name)
    os.makedirs(dst, exist_ok=True)
    for f in ('patch.diff', 'demo.py'):
        shutil.copy(os.path.join(src, f), os.path.join(dst, f))
    json.dump(meta, open(os.path.join(dst, 'meta.json'), 'w'), indent=1)
