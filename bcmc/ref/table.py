"""Robust table comparison + fingerprints (column name based, values only)."""
import hashlib
import pickle

import numpy as np
import pandas as pd

RTOL, ATOL = 1e-9, 1e-12


def col_values(df, c):
    v = df[c].to_numpy()
    if v.dtype == bool or v.dtype == object:
        try:
            return np.array([float(x) for x in v], dtype=float)
        except Exception:      # noqa
            return v
    return v.astype(float)


def same_values(x, y, exact=False):
    x = np.asarray(x, dtype=float)
    y = np.asarray(y, dtype=float)
    if x.shape != y.shape:
        return False
    if exact:
        return bool(np.array_equal(x, y, equal_nan=True))
    return bool(np.allclose(x, y, rtol=RTOL, atol=ATOL, equal_nan=True))


def diff_tables(a, b, exact=False, ignore=()):
    """None if equal, else a short description of the first difference."""
    if not isinstance(a, pd.DataFrame) or not isinstance(b, pd.DataFrame):
        return 'not a DataFrame: %s / %s' % (type(a).__name__, type(b).__name__)
    ca = set(a.columns) - set(ignore)
    cb = set(b.columns) - set(ignore)
    if ca != cb:
        return 'columns differ: only-left=%s only-right=%s' % (sorted(ca - cb), sorted(cb - ca))
    if len(a) != len(b):
        return 'row count %d != %d' % (len(a), len(b))
    for c in sorted(ca):
        x, y = col_values(a, c), col_values(b, c)
        if x.dtype == object or y.dtype == object:
            if list(x) != list(y):
                return 'column %s differs: %s vs %s' % (c, list(x)[:8], list(y)[:8])
            continue
        ex = exact or c.startswith('sample_') or c == 'is_burst' or c == 'period' or c.startswith('time_') and \
            c not in ('time_rdsym', 'time_ptsym')
        if not same_values(x, y, exact=ex):
            idx = [i for i in range(len(x)) if not same_values(x[i:i + 1], y[i:i + 1], exact=ex)][:4]
            return 'column %s differs at rows %s: %s vs %s' % (c, idx, x[idx].tolist(), y[idx].tolist())
    return None


def table_hash(df, cols=None):
    if df is None:
        return None
    cols = sorted(df.columns) if cols is None else cols
    h = hashlib.blake2b(digest_size=8)
    for c in cols:
        h.update(c.encode())
        v = col_values(df, c)
        if v.dtype == object:
            h.update(repr(list(v)).encode())
        else:
            h.update(np.round(v, 9).tobytes())
    return int.from_bytes(h.digest(), 'big')


def fingerprint(o):
    """Deep fingerprint of argument objects (values, shape, dtype; not memory layout)."""
    if isinstance(o, np.ndarray):
        return ('nd', o.dtype.str, o.shape, hashlib.sha1(np.ascontiguousarray(o).tobytes()).hexdigest())
    if isinstance(o, pd.DataFrame):
        return ('df', tuple(o.columns), tuple(str(x) for x in o.dtypes), tuple(o.index),
                hashlib.sha1(pickle.dumps(o.to_numpy().tolist())).hexdigest())
    if isinstance(o, pd.Series):
        return ('ser', str(o.dtype), tuple(o.index), hashlib.sha1(pickle.dumps(o.to_numpy().tolist())).hexdigest())
    if isinstance(o, dict):
        return ('d', tuple(sorted((str(k), fingerprint(v)) for k, v in o.items())))
    if isinstance(o, (list, tuple)):
        return (type(o).__name__, tuple(fingerprint(v) for v in o))
    return ('v', repr(o))
