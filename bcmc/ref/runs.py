"""Reference: maximal runs and the minimum-run filter (plain Python, 'boring')."""


def runs(bits):
    """List of (start, end_exclusive) of maximal runs of truthy values."""
    out, i, n = [], 0, len(bits)
    while i < n:
        if bits[i]:
            j = i
            while j + 1 < n and bits[j + 1]:
                j += 1
            out.append((i, j + 1))
            i = j + 1
        else:
            i += 1
    return out


def min_run_filter(bits, m):
    out = [False] * len(bits)
    for s, e in runs(bits):
        if e - s >= m:
            for k in range(s, e):
                out[k] = True
    return out
