"""Reference model of find_extrema: raw-signal extremes of closed narrow-band half-waves."""
import math

import numpy as np


def ref_filt_len(fs, f_range, filter_kwargs):
    fk = filter_kwargs or {}
    if fk.get('n_seconds') is not None:
        L = math.ceil(fs * fk['n_seconds'])
    else:
        L = math.ceil(fs * fk.get('n_cycles', 3) / f_range[0])
    if L % 2 == 0:
        L += 1
    return L


def ref_extrema(sig, fs, f_range, boundary=0, first_extrema='peak', filter_kwargs=None, pad=True):
    """Return dict(peaks, troughs, n_rise, n_decay, ok) - ok False when the narrow-band signal has
    no upward or no downward crossing (outcome undefined by the property) or when first-extremum
    trimming has nothing to work on."""
    from neurodsp.filt import filter_signal
    fk = dict(filter_kwargs or {})
    n = len(sig)
    padn = 0
    if pad:
        padn = math.ceil(ref_filt_len(fs, f_range, fk) / 2)
    x = np.concatenate([np.zeros(padn), np.asarray(sig, float), np.zeros(padn)])
    f = filter_signal(x, fs, 'bandpass', f_range, remove_edges=False, **fk)
    pos = f > 0
    N = len(x)
    runs = []
    i = 0
    while i < N:
        j = i
        while j + 1 < N and pos[j + 1] == pos[i]:
            j += 1
        runs.append((bool(pos[i]), i, j))
        i = j + 1
    peaks, troughs = [], []
    for k, (p, i, j) in enumerate(runs):
        if k == 0 or k == len(runs) - 1:
            continue                      # not closed by crossings on both sides
        lo, hi = i - 1, j - 1             # the crossing sample is the one *before* the sign change
        seg = x[lo:hi + 1]
        if p:
            peaks.append(lo + int(np.flatnonzero(seg == seg.max())[0]) - padn)
        else:
            troughs.append(lo + int(np.flatnonzero(seg == seg.min())[0]) - padn)
    n_rise = sum(1 for k in range(1, len(runs)) if runs[k][0])
    n_decay = sum(1 for k in range(1, len(runs)) if not runs[k][0])
    peaks = [q for q in peaks if q > boundary and q < n - boundary]
    troughs = [q for q in troughs if q > boundary and q < n - boundary]
    ok = n_rise > 0 and n_decay > 0
    pre_p, pre_t = list(peaks), list(troughs)
    if first_extrema in ('peak', 'trough'):
        # defined whenever there is something to trim against: a single peak or trough is enough (the sequence must still start
        # with the requested kind and have equal counts); only an empty list leaves the outcome open (the implementation raises)
        first, other = (peaks, troughs) if first_extrema == 'peak' else (troughs, peaks)
        if not first or not other:
            ok = False
        else:
            if other[0] < first[0]:
                other.pop(0)
            if not other:
                ok = False
            elif first[-1] > other[-1]:
                first.pop()
    return {'peaks': peaks, 'troughs': troughs, 'n_rise': n_rise, 'n_decay': n_decay, 'ok': ok,
            'pre_peaks': pre_p, 'pre_troughs': pre_t, 'filt': f, 'padn': padn}
