"""Reference: shape features recomputed from a row's own sample columns and the ORIGINAL signal."""
import numpy as np


def ref_shape_row(row, x, centre):
    """row: dict of sample_* columns; x: original (un-negated) signal. Returns dict of features
    (band_amp excluded)."""
    g = lambda k: int(row[k])      # noqa: E731
    out = {}
    if centre == 'peak':
        last, c, nxt = g('sample_last_trough'), g('sample_peak'), g('sample_next_trough')
        zr, zd, lzd = g('sample_zerox_rise'), g('sample_zerox_decay'), g('sample_last_zerox_decay')
        out['period'] = nxt - last
        out['time_rise'] = c - last
        out['time_decay'] = nxt - c
        out['volt_peak'] = x[c]
        out['volt_trough'] = x[last]
        out['volt_rise'] = x[c] - x[last]
        out['volt_decay'] = x[c] - x[nxt]
        out['time_peak'] = zd - zr
        out['time_trough'] = zr - lzd
    else:
        last, c, nxt = g('sample_last_peak'), g('sample_trough'), g('sample_next_peak')
        zr, zd, lzr = g('sample_zerox_rise'), g('sample_zerox_decay'), g('sample_last_zerox_rise')
        out['period'] = nxt - last
        out['time_decay'] = c - last
        out['time_rise'] = nxt - c
        out['volt_trough'] = x[c]
        out['volt_peak'] = x[last]
        out['volt_decay'] = x[last] - x[c]
        out['volt_rise'] = x[nxt] - x[c]
        out['time_trough'] = zr - zd
        out['time_peak'] = zd - lzr
    out['volt_amp'] = (out['volt_rise'] + out['volt_decay']) / 2
    out['time_rdsym'] = out['time_rise'] / out['period']
    with np.errstate(all='ignore'):
        out['time_ptsym'] = np.float64(out['time_peak']) / np.float64(out['time_peak'] + out['time_trough'])
    return out


def ref_band_amp(x, fs, f_range, lasts, nexts):
    from neurodsp.timefrequency import amp_by_time
    amp = amp_by_time(np.asarray(x, float), fs, f_range, remove_edges=False, n_cycles=3)
    return [float(np.mean(amp[int(a):int(b)])) for a, b in zip(lasts, nexts)]
