"""Reference: epoched (axis=None) analysis = partition of the flattened analysis."""
import copy

import numpy as np

from bcmc.ref.burst import ref_labels_from_table


def ref_epoched(sigs2d, fs, f_range, kwargs):
    """Return (tables, boundary_flags): per epoch the expected table; boundary_flags[e] = set of row positions
    (within the flattened table) whose closing extremum lies exactly on the end of epoch e (either adjacent epoch
    is acceptable for them)."""
    from bycycle.features import compute_features
    E = sigs2d.shape[1]
    flat = sigs2d.flatten()
    kl = [{}] if kwargs is None else ([kwargs] if isinstance(kwargs, dict) else list(kwargs))
    k0 = copy.deepcopy(kl[0])
    k0.pop('return_samples', None)
    df = compute_features(np.array(flat), fs, f_range, return_samples=True, **k0)
    centre = k0.get('center_extrema', 'peak')
    side = 'trough' if centre == 'peak' else 'peak'
    nxt = df['sample_next_' + side].to_numpy()
    out, flags = [], []
    for e in range(sigs2d.shape[0]):
        sel_idx = np.where((nxt > e * E) & (nxt <= (e + 1) * E))[0]
        sel = df.iloc[sel_idx].reset_index(drop=True).copy()
        for col in sel.columns:
            if col.startswith('sample_'):
                sel[col] = sel[col] - e * E
        if len(kl) > 1:
            ke = kl[e]
            sel['is_burst'] = np.array(ref_labels_from_table(sel, ke.get('burst_method', k0.get('burst_method', 'cycles')),
                                                             ke.get('threshold_kwargs', {})), dtype=bool)
        out.append(sel)
        flags.append(bool(len(sel_idx) and nxt[sel_idx[-1]] == (e + 1) * E))
    return out, flags, df
