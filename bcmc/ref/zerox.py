"""Reference model of find_zerox: flank midpoints at the half-height crossing."""


def ref_flank(sig, s, e, kind):
    seg = [float(v) for v in sig[s:e + 1]]
    n = len(seg)
    if all(v == 0 for v in seg):
        return s + n // 2
    if kind == 'rise' and seg[0] > seg[-1]:
        return s + n // 2
    if kind == 'decay' and seg[0] < seg[-1]:
        return s + n // 2
    m = (seg[0] + seg[-1]) / 2
    if kind == 'rise':
        xs = [i for i in range(n - 1) if seg[i] <= m and seg[i + 1] > m]
    else:
        xs = [i for i in range(n - 1) if seg[i] > m and seg[i + 1] <= m]
    if not xs:
        return s + n // 2          # level never crossed in the flank's direction: temporal centre
    xs = sorted(xs)
    k = len(xs)
    med = (xs[(k - 1) // 2] + xs[k // 2]) / 2
    return s + int(med)


def flank_info(sig, s, e, kind):
    """(n_crossings, fallback?) for the non-triviality rule."""
    seg = [float(v) for v in sig[s:e + 1]]
    n = len(seg)
    if all(v == 0 for v in seg) or (kind == 'rise' and seg[0] > seg[-1]) or \
            (kind == 'decay' and seg[0] < seg[-1]):
        return 0, True
    m = (seg[0] + seg[-1]) / 2
    if kind == 'rise':
        xs = [i for i in range(n - 1) if seg[i] <= m and seg[i + 1] > m]
    else:
        xs = [i for i in range(n - 1) if seg[i] > m and seg[i + 1] <= m]
    return len(xs), not xs


def ref_zerox(sig, peaks, troughs):
    seq = sorted([(int(p), 'P') for p in peaks] + [(int(t), 'T') for t in troughs])
    rises, decays = [], []
    for (i, a), (j, b) in zip(seq[:-1], seq[1:]):
        if a == 'T' and b == 'P':
            rises.append(ref_flank(sig, i, j, 'rise'))
        elif a == 'P' and b == 'T':
            decays.append(ref_flank(sig, i, j, 'decay'))
    return rises, decays
