"""Reference: burst features and burst labels (plain Python)."""
import math

import numpy as np

from bcmc.ref.runs import min_run_filter

NAN = float('nan')


def ratio(a, b):
    """min/max with IEEE semantics for zeros and NaN."""
    with np.errstate(all='ignore'):
        a, b = np.float64(a), np.float64(b)
        return float(np.minimum(a, b) / np.maximum(a, b)) if not (np.isnan(a) or np.isnan(b)) else NAN


def nanmin(vals):
    v = [x for x in vals if not math.isnan(x)]
    return min(v) if v else NAN


def ref_amp_fraction(volt_amp):
    """average rank / n (NaN stays NaN and is not ranked)."""
    v = [float(x) for x in volt_amp]
    n = len(v)
    out = []
    import bisect
    fin = sorted(y for y in v if not math.isnan(y))
    for x in v:
        if math.isnan(x):
            out.append(NAN)
            continue
        less = bisect.bisect_left(fin, x)            # number of values strictly below x
        eq = bisect.bisect_right(fin, x) - less      # number of values equal to x
        out.append((less + (eq + 1) / 2) / n)
    return out


def ref_amp_consistency(rises, decays, centre, direction='both'):
    """Temporal flank sequence: peak-centred ..., decay[c-1], rise[c], decay[c], rise[c+1], ...;
    trough-centred ..., rise[c-1], decay[c], rise[c], decay[c+1], ..."""
    n = len(rises)
    out = [NAN] * n
    R = [float(v) for v in rises]
    D = [float(v) for v in decays]
    for c in range(1, n - 1):
        if centre == 'peak':
            seq = [D[c - 1], R[c], D[c], R[c + 1]]
        else:
            seq = [R[c - 1], D[c], R[c], D[c + 1]]
        last, cur, nxt = ratio(seq[0], seq[1]), ratio(seq[1], seq[2]), ratio(seq[2], seq[3])
        if all(math.isnan(v) for v in (last, cur, nxt)):
            out[c] = NAN
        elif direction == 'both':
            out[c] = nanmin([cur, nxt, last])
        elif direction == 'next':
            out[c] = nanmin([cur, nxt])
        else:
            out[c] = nanmin([cur, last])
        if not math.isnan(out[c]) and out[c] < 0:
            out[c] = 0.0
    return out


def ref_period_consistency(periods, direction='both'):
    n = len(periods)
    out = [NAN] * n
    P = [float(v) for v in periods]
    for c in range(1, n - 1):
        last, nxt = ratio(P[c], P[c - 1]), ratio(P[c], P[c + 1])
        out[c] = min(last, nxt) if direction == 'both' else (nxt if direction == 'next' else last)
        if direction == 'both' and (math.isnan(last) or math.isnan(nxt)):
            out[c] = NAN
    return out


def ref_monotonicity(x, last, centre_idx, nxt, centre):
    """mean of fraction of strictly increasing steps in the rise and strictly decreasing in the decay."""
    def frac(seg, up):
        d = [seg[i + 1] - seg[i] for i in range(len(seg) - 1)]
        if not d:
            return NAN
        return sum(1 for v in d if (v > 0 if up else v < 0)) / len(d)
    if centre == 'peak':
        rise = x[last:centre_idx + 1]
        decay = x[centre_idx:nxt + 1]
    else:
        decay = x[last:centre_idx + 1]
        rise = x[centre_idx:nxt + 1]
    return (frac(list(rise), True) + frac(list(decay), False)) / 2


def ref_labels_cycles(feat, thr, min_n_cycles):
    """feat: dict of 4 lists; thr: dict of 4 thresholds (strictly exceed; NaN fails; first and
    last never qualify); label = membership in a maximal run of length >= min_n_cycles."""
    n = len(feat['amp_fraction'])
    ok = []
    for i in range(n):
        q = True
        for k in ('amp_fraction', 'amp_consistency', 'period_consistency', 'monotonicity'):
            v = float(feat[k][i])
            if math.isnan(v) or not v > thr[k + '_threshold']:
                q = False
        ok.append(q)
    if n:
        ok[0] = False
        ok[-1] = False
    return min_run_filter(ok, min_n_cycles), ok


CYC_DEFAULTS = {'amp_fraction_threshold': 0., 'amp_consistency_threshold': .5,
                'period_consistency_threshold': .5, 'monotonicity_threshold': .8, 'min_n_cycles': 3}


def ref_labels_from_table(df, method, thr):
    """Labels for a table with the documented defaults filled in."""
    if len(df) == 0:
        return []
    if method == 'cycles':
        t = dict(CYC_DEFAULTS)
        t.update(thr or {})
        feat = {k: df[k].to_numpy().tolist() for k in ('amp_fraction', 'amp_consistency', 'period_consistency',
                                                         'monotonicity')}
        return ref_labels_cycles(feat, t, t['min_n_cycles'])[0]
    t = {'burst_fraction_threshold': 1, 'min_n_cycles': 3}
    t.update(thr or {})
    ok = [float(v) >= t['burst_fraction_threshold'] for v in df['burst_fraction'].to_numpy()]
    return min_run_filter(ok, t['min_n_cycles'])
