"""Shared driver for the pipeline properties: run compute_features for (word, option set) and
evaluate the precondition with the reference model (never by 'the implementation did not raise')."""
import numpy as np

from bcmc import spaces as S
from bcmc.ref.extrema import ref_extrema, ref_filt_len


def precondition(sig, o, min_peaks=3):
    """(ok, reason, ref) - ref extrema are those of the signal the pipeline searches (negated for
    trough centring), first_extrema='peak'."""
    fs, fr = o['fs'], o['f_range']
    fk = o['filter_kwargs']
    n = len(sig)
    if n <= ref_filt_len(fs, fr, fk) or n <= ref_filt_len(fs, fr, {'n_cycles': 3}):
        return False, 'signal not longer than the filter', None
    x = -sig if o['center_extrema'] == 'trough' else sig
    r = ref_extrema(x, fs, fr, boundary=o['boundary'] or 0, first_extrema='peak', filter_kwargs=fk, pad=True)
    if not r['ok'] or len(r['peaks']) < min_peaks or len(r['troughs']) < min_peaks:
        return False, 'fewer than %d full oscillations' % min_peaks, r
    return True, '', r


def run_cf(sig, o, **override):
    from bycycle.features import compute_features
    kw = S.call_kwargs(o)
    kw.update(override)
    fs, fr = S.call_fs(o)
    return compute_features(sig if o.get('layout', 'plain') != 'plain' else np.array(sig, dtype=float), fs, fr, **kw)


def side_of(centre):
    return 'trough' if centre == 'peak' else 'peak'


def sample_cols(centre):
    side = side_of(centre)
    other_zx = 'decay' if centre == 'peak' else 'rise'      # midpoint preceding the centre flank pair
    return {'centre': 'sample_' + centre, 'last': 'sample_last_' + side, 'next': 'sample_next_' + side,
            'rise': 'sample_zerox_rise', 'decay': 'sample_zerox_decay',
            'last_zx': 'sample_last_zerox_' + other_zx}
