"""Run a function in a forked child process (fresh copy of the never-contaminated worker state)."""
import os
import pickle
import select
import signal
import sys
import time
import traceback


def run_in_child(fn, args=(), timeout=300, new_session=True):
    r, w = os.pipe()
    pid = os.fork()
    if pid == 0:
        os.close(r)
        try:
            if new_session:
                try:
                    os.setsid()
                except Exception:      # noqa
                    pass
            try:
                out = ('ok', fn(*args))
            except BaseException:      # noqa
                out = ('exc', traceback.format_exc()[-3000:])
            data = pickle.dumps(out)
            with os.fdopen(w, 'wb') as f:
                f.write(data)
        finally:
            os._exit(0)
    os.close(w)
    chunks = []
    deadline = time.time() + timeout
    with os.fdopen(r, 'rb') as f:
        while True:
            left = deadline - time.time()
            if left <= 0:
                try:
                    os.killpg(pid, signal.SIGKILL)
                except Exception:      # noqa
                    try:
                        os.kill(pid, signal.SIGKILL)
                    except Exception:      # noqa
                        pass
                os.waitpid(pid, 0)
                return ('timeout', None)
            rl, _, _ = select.select([f], [], [], min(left, 1.0))
            if rl:
                b = f.read()
                chunks.append(b)
                break
    os.waitpid(pid, 0)
    data = b''.join(chunks)
    if not data:
        return ('died', None)
    return pickle.loads(data)
