"""Shared enumerated spaces: waveform letters, words, option grid with a deviation bound."""
import copy
import itertools

import numpy as np

# ---- waveform letters (integer valued) -----------------------------------------------------------
CORE = ['a', 'b', 'd', 'e', 'n', 'z', 's', 'l']
LETTERS = {
    'a': [0, 2, 3, 2, 0, -2, -3, -2],
    'b': [0, 3, 3, 3, 0, -3, -3, -3],
    'd': [0, 1, 1, 1, 0, -1, -1, -1],
    'e': [0, 3, 1, 3, 0, -3, -1, -3],
    'n': [0, 2, 1, 3, -1, 1, -3, -1],
    'z': [0] * 8,
    's': [0, 2, 3, 0, -2, -3],
    'l': [0, 1, 2, 3, 2, 0, -1, -2, -3, -2],
    # extra pool (two are selected by VERIF_SEED)
    'w': [0, 1, 2, 3, 4, -4, -2, -1],            # sawtooth
    'A': [0, 4, 6, 4, 0, -4, -6, -4],            # double amplitude a
    'p': [2, 3, 2, 0, -2, -3, -2, 0],            # phase shifted a
    'k': [1, 4, 4, 4, 1, -2, -2, -2],            # DC shifted plateau
    'v': [0, 2, 3, 1, -2, -3, -1],               # 7-sample cycle
    'G': [v * 2 ** 17 for v in [0, 2, 3, 2, 0, -2, -3, -2]],     # a giant cycle (artefact): dynamic range of 10^5 within one recording
}
EXTRA_POOL = ['w', 'A', 'p', 'k', 'v']


def alphabet(k, seed=0, extra=0):
    """First k core letters (+ ``extra`` letters of the pool chosen by the seed)."""
    al = CORE[:k]
    if extra:
        rot = seed % len(EXTRA_POOL)
        al = al + [EXTRA_POOL[(rot + i) % len(EXTRA_POOL)] for i in range(extra)]
    return al


# ---- long, realistic recordings (names start with '@'; usable wherever a word is) ---------------------------
# real-valued 1/f noise + a bursty, asymmetric, period-jittered oscillation + slow drift; fixed seeds.  They exist to reach
# code paths keyed on SIZE (more than 255 / 512 / 1000 cycles, more than 65536 samples, flanks of 100 samples, ...)
LONG = {
    '@A': dict(n=33000, period=50, seed=11),      # ~660 cycles           (declared as fs = 500, band 8-12)
    '@B': dict(n=70000, period=50, seed=12),      # ~1400 cycles, > 2**16 samples (fs = 1000, band 13-30)
    '@C': dict(n=30517, period=105, seed=13),     # non-integer rate      (fs = 1017.25, band 8.1-12.9)
    '@D': dict(n=40000, period=200, seed=14),     # 200 samples per cycle (fs = 2000, band 8-12)
    '@E': dict(n=6000, period=50, seed=15),       # 120 cycles            (fs = 500, band 8-12)
    '@G': dict(n=300000, period=50, seed=17),     # 300 s at fs = 1000: more than 2**18 samples (band amplitude envelope > 2 MB)
    '@F': dict(n=140000, period=50, seed=16),     # ~2800 cycles, 140 s at fs = 1000: times * fs beyond 1e5, views of more than 1e5 samples
}
_LONG_CACHE = {}


def long_signal(name):
    if name not in _LONG_CACHE:
        c = LONG[name]
        n, period = c['n'], c['period']
        rng = np.random.RandomState(c['seed'])
        X = np.fft.rfft(rng.standard_normal(n))
        f = np.arange(len(X), dtype=float)
        f[0] = 1.
        noise = np.fft.irfft(X / np.sqrt(f), n)
        noise /= noise.std()
        env = np.zeros(n)
        i = 0
        while i < n:
            on = int(rng.randint(2, 14) * period)
            off = int(rng.randint(1, 9) * period)
            env[i:i + on] = rng.uniform(.6, 1.6)
            i += on + off
        k = np.ones(period // 2) / (period // 2)
        env = np.convolve(env, k, mode='same')
        jitter = np.cumsum(rng.standard_normal(n)) * (.002 / np.sqrt(period))
        ph = 2 * np.pi * (np.arange(n) / period + jitter)
        osc = np.sin(ph) + .25 * np.sin(2 * ph + .7)
        t = np.arange(n) / n
        _LONG_CACHE[name] = 2. * env * osc + .6 * noise + .5 * np.sin(2 * np.pi * 3 * t)
    return _LONG_CACHE[name].copy()


def word_signal(word, scale=1.0, offset=0.0, negate=False):
    if word.startswith('@'):
        x = long_signal(word)
        if negate:
            x = -x
        return x * scale + offset
    x = np.array(sum((LETTERS[c] for c in word), []), dtype=float)
    if negate:
        x = -x
    x = x * scale + offset
    return x


SENSITIVE = [('aabeaadaab', 5), ('aaaaaaaaaa', 4), ('bbnbbdabbb', 1), ('aadaaazzaa', 4), ('anananadad', 2), ('anananadad', 3)]


def sensitive_signal(i):
    """Integer-valued noisy signals (80 samples) whose cycle table changes with the narrow-band filter length
    (n_cycles 2 / 3 / 4 give three different tables at fs=64, band 6-14 Hz) - found by search, fixed here."""
    w, k = SENSITIVE[i % len(SENSITIVE)]
    x = word_signal(w)
    n = np.arange(len(x))
    return x + 2.0 * (((n * n * (3 + k) + n * (7 + 2 * k) + k) % 7) - 3.0)


def long_cases(words, variants):
    """Cases [word, devs] for the long recordings: every word with its rate declaration + each variant (tuple of deviations)."""
    return [[w, tuple(sorted((LONG_DECL[w],) + tuple(v)))] for w in words for v in variants]


def word_dims(letters, length):
    return [list(letters)] * length


# ---- option grid ---------------------------------------------------------------------------------
T0 = {'amp_fraction_threshold': 0., 'amp_consistency_threshold': .5,
      'period_consistency_threshold': .5, 'monotonicity_threshold': .6, 'min_n_cycles': 2}
T1 = {'amp_fraction_threshold': .3, 'amp_consistency_threshold': .25,
      'period_consistency_threshold': .7, 'monotonicity_threshold': .4, 'min_n_cycles': 1}
TA0 = {'burst_fraction_threshold': .5, 'min_n_cycles': 2}
TA1 = {'burst_fraction_threshold': 1, 'min_n_cycles': 1}

# one *deviation* = one option departing from the default option set o0
DEVIATIONS = {
    'trough': {'center_extrema': 'trough'},
    'amp': {'burst_method': 'amp'},
    'nc2': {'filter_kwargs': {'n_cycles': 2}},
    'nc4': {'filter_kwargs': {'n_cycles': 4}},
    'ns.5': {'filter_kwargs': {'n_seconds': .5}},
    'ns.375': {'filter_kwargs': {'n_seconds': .375}},
    'b1': {'boundary': 1},
    'b5': {'boundary': 5},
    'b12': {'boundary': 12},
    'band5_12': {'f_range': (5, 12)},
    'band7_16': {'f_range': (7, 16)},
    'fs128': {'fs': 128, 'f_range': (12, 28)},
    'nosamp': {'return_samples': False},
    'mbd': {'min_burst_duration': .1},      # burst options carry a minimum burst duration in seconds (amplitude method only)
    'thr1': {'thr': 1},
    'nothr': {'thr': None},                # threshold_kwargs omitted: documented defaults
    'b0': {'boundary': 0},                  # explicit default boundary
    'nc3': {'filter_kwargs': {'n_cycles': 3}},      # explicit default filter length
    'x1024': {'scale': 1024.0},
    'x2-10': {'scale': 2.0 ** -10},
    'x.125': {'scale': .125},
    'x2-40': {'scale': 2.0 ** -40},       # e.g. MEG in tesla
    'x2+40': {'scale': 2.0 ** 40},
    'dc5': {'offset': 5.0},
    'neg': {'negate': True},
    'driftdn': {'drift': -2.5},            # oscillation riding on a falling flank steeper than its own slope (inverted flanks)
    'driftup': {'drift': 2.5},
    'readonly': {'layout': 'readonly'},    # the caller's array is not writeable
    'fsfloat': {'argtypes': 'float-list'},  # fs = 64.0, f_range = [6, 14] (a list)
    'fsnp': {'argtypes': 'numpy'},          # fs = np.int64(64), f_range = (np.float64(6), np.float64(14))
    'strided': {'layout': 'strided'},      # the signal is a non-contiguous view into a larger array
    'int': {'layout': 'int'},              # integer dtype (ADC counts)
    'L500a': {'fs': 500, 'f_range': (8, 12)},           # rate / band declarations for the long recordings (LONG)
    'L1000b': {'fs': 1000, 'f_range': (13, 30)},
    'L1017': {'fs': 1017.25, 'f_range': (8.1, 12.9)},
    'L2000a': {'fs': 2000, 'f_range': (8, 12)},
    'int16big': {'layout': 'int16big'},    # int16 at ~90 % of full scale (C09 only: arithmetic wraps identically on both sides)
}
# deviations that exclude each other (same option)
LONG_DEVS = ('L500a', 'L1000b', 'L1017', 'L2000a')
LONG_DECL = {'@A': 'L500a', '@B': 'L1000b', '@C': 'L1017', '@D': 'L2000a', '@E': 'L500a', '@F': 'L1000b', '@G': 'L1000b'}
GROUPS = [('driftdn', 'driftup', 'dc5', 'neg'), ('strided', 'int', 'int16big', 'readonly'), ('fsfloat', 'fsnp', 'fs128', 'band5_12', 'band7_16') + LONG_DEVS, ('nc2', 'nc3', 'nc4', 'ns.5', 'ns.375'), ('b0', 'b1', 'b5', 'b12'), ('thr1', 'nothr'), ('band5_12', 'band7_16', 'fs128'),
          ('x1024', 'x2-10', 'x.125', 'x2-40', 'x2+40')]


def compatible(devs):
    for g in GROUPS:
        if sum(1 for d in devs if d in g) > 1:
            return False
    return True


def option_sets(max_dev, menu=None):
    """All option sets (tuples of deviation names, sorted) with at most max_dev deviations."""
    menu = [d for d in DEVIATIONS if d not in ('int16big', 'mbd') and d not in LONG_DEVS] if menu is None else list(menu)
    out = [()]
    for k in range(1, max_dev + 1):
        for c in itertools.combinations(menu, k):
            if compatible(c):
                out.append(c)
    return out


def resolve(devs):
    """Turn a tuple of deviation names into concrete call parameters."""
    o = {'fs': 64, 'f_range': (6, 14), 'center_extrema': 'peak', 'burst_method': 'cycles',
         'filter_kwargs': None, 'boundary': None, 'return_samples': True, 'thr': 0,
         'scale': 1.0, 'offset': 0.0, 'negate': False, 'layout': 'plain', 'drift': 0.0, 'argtypes': None, 'min_burst_duration': None}
    for d in devs:
        o.update(copy.deepcopy(DEVIATIONS[d]))
    return o


def call_kwargs(o):
    """compute_features keyword arguments for a resolved option set (fresh objects each call)."""
    kw = {'center_extrema': o['center_extrema'], 'burst_method': o['burst_method'],
          'return_samples': o['return_samples']}
    if o['burst_method'] == 'cycles':
        if o['thr'] is not None:
            kw['threshold_kwargs'] = dict(T0 if o['thr'] == 0 else T1)
    else:
        if o['thr'] is not None:
            kw['threshold_kwargs'] = dict(TA0 if o['thr'] == 0 else TA1)
        kw['burst_kwargs'] = {'amp_threshes': (.5, 1.)}
        if o.get('min_burst_duration') is not None:
            kw['burst_kwargs']['min_burst_duration'] = o['min_burst_duration']
    fek = {}
    if o['filter_kwargs'] is not None:
        fek['filter_kwargs'] = dict(o['filter_kwargs'])
    if o['boundary'] is not None:
        fek['boundary'] = o['boundary']
    if fek:
        kw['find_extrema_kwargs'] = fek
    return kw


def call_fs(o):
    """(fs, f_range) in the argument types requested by the option set."""
    if o.get('argtypes') == 'float-list':
        return float(o['fs']), [float(v) for v in o['f_range']]
    if o.get('argtypes') == 'numpy':
        return np.int64(o['fs']), tuple(np.float64(v) for v in o['f_range'])
    return o['fs'], o['f_range']


def make_signal(word, o):
    x = word_signal(word, scale=o['scale'], offset=o['offset'], negate=o['negate'])
    if o.get('drift'):
        x = x + o['drift'] * np.arange(len(x))
    if o.get('layout') == 'int16big':
        return (x * 10000).astype(np.int16)      # ~90 % of full scale: peak-to-trough swings overflow int16
    if o.get('layout') == 'readonly':
        x = np.array(x, dtype=float)
        x.setflags(write=False)
        return x
    if o.get('layout') == 'strided':
        big = np.empty((len(x), 3))
        big[:] = 99.
        big[:, 1] = x
        return big[:, 1]
    if o.get('layout') == 'int' and np.all(x == np.round(x)):
        return x.astype(np.int64)
    return x


def filt_len(fs, f_range, filter_kwargs):
    """Length (taps) of the neurodsp FIR filter for these settings (reference formula)."""
    import math
    fk = filter_kwargs or {}
    if fk.get('n_seconds') is not None:
        L = math.ceil(fs * fk['n_seconds'])
    else:
        L = math.ceil(fs * fk.get('n_cycles', 3) / f_range[0])
    if L % 2 == 0:
        L += 1
    return L
