"""./check <ID> [--tier quick|thorough] [--seed N] [--replay FILE] [--jobs N]"""
import argparse
import hashlib
import importlib
import json
import os
import shutil
import subprocess
import sys
import time

VERIF = os.path.dirname(os.path.dirname(os.path.abspath(__file__)))
OUT = os.environ.get('BCMC_OUT') or VERIF      # mutant runs redirect evidence / replays away from /verif
REPO = os.environ.get('BCMC_REPO', '/repo')
if os.environ.get('BCMC_REPO'):
    sys.path.insert(0, REPO)

import warnings
warnings.simplefilter('ignore')

from bcmc import explore as ex      # noqa: E402
from bcmc import findings           # noqa: E402


def jsonable(o):
    import numpy as np
    if isinstance(o, dict):
        return {str(k): jsonable(v) for k, v in o.items()}
    if isinstance(o, (list, tuple, set, frozenset)):
        return [jsonable(v) for v in o]
    if isinstance(o, np.ndarray):
        return jsonable(o.tolist())
    if isinstance(o, (np.integer,)):
        return int(o)
    if isinstance(o, (np.floating,)):
        o = float(o)
    if isinstance(o, (np.bool_,)):
        return bool(o)
    if isinstance(o, float):
        if o != o:
            return 'NaN'
        if o in (float('inf'), float('-inf')):
            return 'inf' if o > 0 else '-inf'
        return o
    if isinstance(o, (str, int, bool)) or o is None:
        return o
    return repr(o)


def log(*a):
    print(*a, flush=True)


def write_evidence(pid, ev):
    path = os.path.join(OUT, 'evidence', pid + '.json')
    os.makedirs(os.path.dirname(path), exist_ok=True)
    tmp = path + '.tmp'
    with open(tmp, 'w') as f:
        json.dump(jsonable(ev), f, indent=1, sort_keys=True)
        f.write('\n')
    os.replace(tmp, path)
    # validate with the tooling venv's jsonschema if it is there (python3-vt)
    vt = shutil.which('python3-vt')
    schema = '/root/.vp/EVIDENCE.schema.json'
    if vt and os.path.exists(schema):
        code = ("import json,sys,jsonschema;"
                "jsonschema.validate(json.load(open(sys.argv[1])),json.load(open(sys.argv[2])))")
        r = subprocess.run([vt, '-c', code, path, schema], capture_output=True, text=True)
        if r.returncode != 0:
            log('HARNESS-ERROR evidence file does not validate:\n' + r.stderr[-1500:])
            return False
    return True


def save_replay(pid, tier, seed, v):
    os.makedirs(os.path.join(OUT, 'replays'), exist_ok=True)
    body = {'property': pid, 'tier': tier, 'seed': seed, 'space': v['space'], 'case': v['case'],
            'signature': v['signature'], 'message': v['message'], 'expected': v.get('expected'),
            'observed': v.get('observed')}
    body = jsonable(body)
    hh = hashlib.sha1(json.dumps([body['space'], body['case']], sort_keys=True).encode()).hexdigest()[:12]
    path = os.path.join(OUT, 'replays', '%s-%s.json' % (pid, hh))
    with open(path, 'w') as f:
        json.dump(body, f, indent=1, sort_keys=True)
        f.write('\n')
    return path


def find_space(mod, tier, seed, name):
    for sp in mod.spaces(tier, seed):
        if sp.name == name:
            return sp
    return None


def do_replay(pid, mod, path):
    rec = json.load(open(path))
    tier, seed = rec.get('tier', 'quick'), rec.get('seed', 0)
    if hasattr(mod, 'replay') and rec.get('space', '').startswith('bfs:'):
        r = mod.replay(rec)
    else:
        sp = find_space(mod, tier, seed, rec['space'])
        if sp is None:
            sp = find_space(mod, 'thorough', seed, rec['space'])
        if sp is None:
            log('HARNESS-ERROR unknown space %r' % rec['space'])
            return 2
        if rec.get('history_dependent'):
            d = ex.walk_subtree(sp, tuple(rec['subtree'])).dump()
            hit = [x for x in d['viols'] if json.dumps(jsonable(x['case']), sort_keys=True) == json.dumps(rec['case'], sort_keys=True)]
            r = ({'v': 'viol', 'sig': dict(hit[0]['signature'], history_dependent=True), 'msg': hit[0]['message'],
                  'expected': hit[0].get('expected'), 'observed': hit[0].get('observed')} if hit else {'v': 'ok'})
        else:
            r = ex.safe_evaluate(sp, rec['case'])
    log('replay verdict: %s' % r['v'])
    if r['v'] == 'viol':
        log('  signature: %s' % json.dumps(jsonable(r['sig']), sort_keys=True))
        log('  message:   %s' % r['msg'])
        if r.get('expected') is not None:
            log('  expected:  %s' % str(jsonable(r['expected']))[:1500])
        if r.get('observed') is not None:
            log('  observed:  %s' % str(jsonable(r['observed']))[:1500])
        kf = findings.match(pid, jsonable(r['sig']))
        if kf:
            log('KNOWN-FINDING: property=%s %s' % (pid, kf['what']))
            return 0
        log('VIOLATION property=%s replay=%s' % (pid, os.path.abspath(path)))
        return 1
    if r['v'] == 'error':
        log(r['msg'])
        return 2
    return 0


def main(argv=None):
    import faulthandler, signal
    faulthandler.register(signal.SIGUSR1, all_threads=True)
    ap = argparse.ArgumentParser()
    ap.add_argument('pid')
    ap.add_argument('--tier', default=os.environ.get('VERIF_TIER', 'quick'))
    ap.add_argument('--seed', type=int, default=int(os.environ.get('VERIF_SEED', '0') or 0))
    ap.add_argument('--replay')
    ap.add_argument('--jobs', type=int, default=int(os.environ.get('BCMC_JOBS', '16')))
    ap.add_argument('--only', help='restrict to spaces whose name contains this (debugging; '
                                   'the evidence then says not exhaustive)')
    a = ap.parse_args(argv)
    pid, tier, seed = a.pid, a.tier, a.seed
    if tier not in ('quick', 'thorough'):
        tier = 'quick'

    import bycycle
    if not os.path.abspath(bycycle.__file__).startswith(os.path.abspath(REPO) + '/'):
        log('HARNESS-ERROR bycycle imported from %s, expected under %s' % (bycycle.__file__, REPO))
        return 2

    mod = importlib.import_module('bcmc.props.' + pid)
    if a.replay:
        return do_replay(pid, mod, a.replay)

    t0 = time.time()
    log('[%s] tier=%s seed=%d repo=%s' % (pid, tier, seed, REPO))
    spaces = mod.spaces(tier, seed)
    if a.only:
        spaces = [s for s in spaces if a.only in s.name]
    _entries = findings.load()
    ex.KNOWN_MATCH = lambda sig: findings.match(pid, jsonable(sig), _entries) is not None
    rep = ex.explore(spaces, jobs=a.jobs, log=log, task_timeout=420.0 if tier == 'quick' else 2400.0) if spaces else {'spaces': [], 'fatal': None,
                                                                  'complete': True}
    sp_reports = rep['spaces']
    if hasattr(mod, 'run_extra') and not a.only:
        sp_reports = sp_reports + list(mod.run_extra(tier, seed, a.jobs, log))
    elif hasattr(mod, 'run_extra') and a.only and 'extra' in a.only:
        sp_reports = list(mod.run_extra(tier, seed, a.jobs, log))

    tot = {k: 0 for k in ('states', 'transitions', 'evals', 'cases', 'skipped', 'traces', 'nviol')}
    nt, allh, samples, viols, errors = set(), set(), [], [], []
    skip_reasons, extra = {}, {}
    breakdown = []
    for m in sp_reports:
        for k in tot:
            tot[k] += m.get(k, 0)
        nt |= set(m.get('nt', ()))
        allh |= set(m.get('all', ()))
        if m.get('samples'):
            samples.extend(m['samples'][:2])
        viols.extend(m.get('viols', []))
        errors.extend(m.get('errors', []))
        for k, n in m.get('skip_reasons', {}).items():
            skip_reasons[k] = skip_reasons.get(k, 0) + n
        for k, n in m.get('extra', {}).items():
            extra[k] = extra.get(k, 0) + n
        breakdown.append({'space': m['name'], 'describe': m.get('describe', ''),
                          'bounds': m.get('bounds', {}), 'states': m.get('states', 0),
                          'transitions': m.get('transitions', 0), 'cases': m.get('cases', 0),
                          'evaluations': m.get('evals', 0), 'skipped': m.get('skipped', 0),
                          'distinct_outcomes': len(set(m.get('all', ()))),
                          'distinct_nontrivial': len(set(m.get('nt', ()))),
                          'violations': m.get('nviol', 0), 'model': m.get('model')})
        log('  space %-34s states=%d transitions=%d cases=%d evals=%d skipped=%d nontrivial=%d '
            'outcomes=%d viol=%d' % (m['name'], m.get('states', 0), m.get('transitions', 0),
                                     m.get('cases', 0), m.get('evals', 0), m.get('skipped', 0),
                                     len(set(m.get('nt', ()))), len(set(m.get('all', ()))),
                                     m.get('nviol', 0)))

    harness_error = bool(rep.get('fatal')) or bool(errors)
    if rep.get('fatal'):
        log('HARNESS-ERROR ' + str(rep['fatal']))
    for e in errors[:3]:
        log('HARNESS-ERROR in space %s case %s:\n%s' % (e['space'], json.dumps(jsonable(e['case']))[:300],
                                                        e['msg']))

    # classify violations: known finding vs new
    entries = findings.load()
    known_hit, new_viols, seen_sig = {}, [], set()
    for v in viols:
        sig = jsonable(v['signature'])
        kf = findings.match(pid, sig, entries)
        if kf:
            known_hit.setdefault(kf['id'], (kf, v))
            continue
        sk = json.dumps(sig, sort_keys=True)
        if sk in seen_sig:
            continue
        seen_sig.add(sk)
        new_viols.append(v)

    exit_code = 0
    printed = 0
    for v in new_viols[:12]:
        # determinism: re-execute twice from the replay record before reporting
        path = save_replay(pid, tier, seed, v)
        if not v['space'].startswith('bfs:') and v['signature'].get('kind') not in ('hang', 'crash'):
            sp = next((s for s in spaces if s.name == v['space']), None)
            rec = json.load(open(path))
            r1 = ex.in_fresh_child(ex.safe_evaluate, sp, rec['case'])
            r2 = ex.in_fresh_child(ex.safe_evaluate, sp, rec['case'])
            if r1['v'] != 'viol' or r2['v'] != 'viol':
                # not reproducible from the case alone: does it depend on the cases evaluated before it in its sub-tree?
                # (every sub-tree runs in a fresh process, so re-running the sub-tree is an exact replay of its history)
                hits = []
                if v.get('task') is not None:
                    for _ in range(2):
                        d = ex.in_fresh_child(ex._task_body, spaces, spaces.index(sp), tuple(v['task']))
                        hits.append(any(json.dumps(jsonable(x['case']), sort_keys=True) == json.dumps(jsonable(v['case']), sort_keys=True)
                                        for x in d['viols']))
                if hits and all(hits):
                    rec['history_dependent'] = True
                    rec['subtree'] = v['task']
                    rec['signature'] = dict(rec['signature'], history_dependent=True)
                    rec['message'] = ('(the violation needs the cases evaluated before it in its sub-tree: the result depends on '
                                      'call history) ' + rec['message'])
                    with open(path, 'w') as f:
                        json.dump(rec, f, indent=1, sort_keys=True)
                    v = dict(v, signature=rec['signature'], message=rec['message'])
                else:
                    log('HARNESS-ERROR violation not reproducible from its replay record: %s (%s/%s, sub-tree %s)'
                        % (path, r1['v'], r2['v'], hits))
                    harness_error = True
                    continue
        log('VIOLATION property=%s replay=%s' % (pid, path))
        log('    %s | %s' % (json.dumps(jsonable(v['signature']), sort_keys=True)[:300], v['message'][:300]))
        printed += 1
        exit_code = 1
    for kid, (kf, v) in sorted(known_hit.items()):
        log('KNOWN-FINDING: property=%s %s' % (pid, kf['what']))

    exhaustive = bool(rep.get('complete', True)) and not harness_error and not a.only and exit_code == 0
    ev = {
        'property_id': pid, 'tier': tier, 'seed': seed, 'level': getattr(mod, 'LEVEL', 'model_checking'),
        'wall_s': round(time.time() - t0, 2),
        'violations': len(new_viols),
        'assumptions': list(getattr(mod, 'ASSUMPTIONS', [])),
        'coverage': {
            'states': tot['states'], 'transitions': tot['transitions'],
            'traces_validated_against_impl': tot['traces'],
            'evaluations': tot['evals'], 'cases': tot['cases'], 'skipped_precondition': tot['skipped'],
            'skip_reasons': skip_reasons,
            'distinct_nontrivial': len(nt), 'distinct_outcomes': len(allh),
            'rule': getattr(mod, 'RULE', ''),
            'samples': samples[:6] if samples else [{'note': 'no sample recorded'}],
            'exhaustive': exhaustive,
            'spaces': breakdown,
            'counters': extra,
            'known_findings_hit': sorted(known_hit),
            'explanation': getattr(mod, '__doc__', '') or '',
        },
    }
    ok = write_evidence(pid, ev)
    log('[%s] states=%d transitions=%d cases=%d evaluations=%d skipped=%d distinct_nontrivial=%d '
        'violations=%d known=%d exhaustive=%s wall=%.1fs'
        % (pid, tot['states'], tot['transitions'], tot['cases'], tot['evals'], tot['skipped'], len(nt),
           len(new_viols), len(known_hit), exhaustive, time.time() - t0))
    if exit_code == 1:
        return 1
    if harness_error or not ok:
        return 2
    return 0


if __name__ == '__main__':
    sys.exit(main())
