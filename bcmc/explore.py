"""Bounded-exhaustive explorer.

Every enumerated space is presented as a rooted, finitely branching transition system:
a *node* is a partial object (tuple), ``children(node)`` appends one element, and a node may be
a *case* (a complete object on which the property is evaluated against the real code).

The explorer walks the tree breadth-first down to ``split_depth`` in the parent, ships every
sub-tree below that depth to one of N long-lived forked worker processes (non-daemonic, because
the code under test creates its own multiprocessing.Pool), walks each sub-tree completely and
merges the per-sub-tree results in deterministic (task id) order.  It counts states (distinct
nodes), transitions (edges followed), evaluations, skipped cases, distinct outcome hashes of the
non-trivial cases, and never samples: a space is either enumerated completely or the run is
reported as not exhaustive.
"""
import collections
import hashlib
import json
import multiprocessing as mp
import os
import queue as _queue
import sys
import time
import traceback

MAX_VIOL_PER_TASK = 8
KNOWN_MATCH = None       # callable(signature) -> bool, set by the CLI: violations that match a listed known finding do not count towards the early stop
MAX_SAMPLES_PER_TASK = 2


# ------------------------------------------------------------------------------------------------
# result constructors used by the property modules

def OK(outcome=None, nontrivial=False, sample=None, evals=1, traces=None, extra=None):
    return {'v': 'ok', 'outcome': outcome, 'nt': bool(nontrivial), 'sample': sample,
            'evals': evals, 'traces': evals if traces is None else traces, 'extra': extra}


def SKIP(reason='precondition', evals=1):
    return {'v': 'skip', 'reason': reason, 'evals': evals, 'traces': 0}


def VIOL(signature, message, expected=None, observed=None, evals=1, traces=None, outcome=None,
         nontrivial=False):
    return {'v': 'viol', 'sig': signature, 'msg': message, 'expected': expected,
            'observed': observed, 'evals': evals, 'traces': evals if traces is None else traces,
            'outcome': outcome, 'nt': nontrivial}


def h64(obj):
    """Deterministic 64-bit hash of a JSON-able / repr-able outcome."""
    if isinstance(obj, bytes):
        b = obj
    else:
        b = repr(obj).encode()
    return int.from_bytes(hashlib.blake2b(b, digest_size=8).digest(), 'big')


# ------------------------------------------------------------------------------------------------

class Space:
    """Base class of an enumerated space."""
    name = 'space'
    split_depth = 1
    describe = ''

    def root(self):
        return ()

    def children(self, node):
        raise NotImplementedError

    def is_case(self, node):
        raise NotImplementedError

    def case(self, node):
        """JSON-able description of the complete object at this node."""
        return list(node)

    def key(self, node):
        """Canonical key for de-duplication (None = the tree has no merging nodes)."""
        return None

    def evaluate(self, case):
        raise NotImplementedError

    def bounds(self):
        return {}


class ProductSpace(Space):
    """Tree over a product dims[0] x dims[1] x ...; a node is a tuple of indices; the leaves are
    the cases.  ``decode(idx_tuple)`` turns a leaf into a JSON-able case."""

    def __init__(self, name, dims, evaluate, decode=None, split_depth=None, describe='',
                 min_len=None, bounds=None):
        self.name = name
        self.dims = [list(d) for d in dims]
        self._evaluate = evaluate
        self._decode = decode
        self.describe = describe
        self._bounds = bounds or {}
        # cases at every depth >= min_len (used for "all lengths <= L") or only at full depth
        self.min_len = len(self.dims) if min_len is None else min_len
        if split_depth is None:
            split_depth, n = 0, 1
            while split_depth < len(self.dims) and n < 400:
                n *= len(self.dims[split_depth])
                split_depth += 1
        self.split_depth = split_depth

    def children(self, node):
        d = len(node)
        if d >= len(self.dims):
            return []
        return [node + (i,) for i in range(len(self.dims[d]))]

    def is_case(self, node):
        return len(node) >= self.min_len

    def case(self, node):
        vals = [self.dims[d][i] for d, i in enumerate(node)]
        return self._decode(vals) if self._decode else vals

    def evaluate(self, case):
        return self._evaluate(case)

    def bounds(self):
        b = {'dims': [len(d) for d in self.dims], 'min_len': self.min_len}
        b.update(self._bounds)
        return b


class ListSpace(Space):
    """A flat list of cases (root -> one child per case)."""

    def __init__(self, name, cases, evaluate, describe='', bounds=None):
        self.name = name
        self.cases = list(cases)
        self._evaluate = evaluate
        self.describe = describe
        self.split_depth = 1
        self._bounds = bounds or {}

    def children(self, node):
        return [(i,) for i in range(len(self.cases))] if node == () else []

    def is_case(self, node):
        return len(node) == 1

    def case(self, node):
        return self.cases[node[0]]

    def evaluate(self, case):
        return self._evaluate(case)

    def bounds(self):
        b = {'cases': len(self.cases)}
        b.update(self._bounds)
        return b


# ------------------------------------------------------------------------------------------------

def _impl_frames(tb):
    """True if the traceback passes through the package under test (or libraries it calls)."""
    root = os.environ.get('BCMC_REPO', '/repo')
    for fr in traceback.extract_tb(tb):
        fn = fr.filename
        if fn.startswith(root + '/bycycle/'):
            return True
    return False


def safe_evaluate(space, case):
    """Evaluate one case; an exception escaping from the implementation is a violation, an
    exception raised purely inside the harness is a harness error."""
    try:
        r = space.evaluate(case)
        if r is None:
            r = OK()
        return r
    except Exception as e:      # noqa
        et, ev, tb = sys.exc_info()
        txt = ''.join(traceback.format_exception(et, ev, tb))[-3000:]
        if _impl_frames(tb):
            where = 'unknown'
            root = os.environ.get('BCMC_REPO', '/repo')
            for fr in traceback.extract_tb(tb):
                if fr.filename.startswith(root + '/'):
                    where = '%s:%s' % (os.path.relpath(fr.filename, root), fr.name)
            return VIOL({'kind': 'exception', 'exc': et.__name__, 'where': where},
                        'implementation raised %s: %s' % (et.__name__, str(ev)[:200]),
                        observed=txt)
        return {'v': 'error', 'msg': txt, 'evals': 1, 'traces': 0}


class _Agg:
    def __init__(self):
        self.states = 0
        self.transitions = 0
        self.evals = 0
        self.cases = 0
        self.skipped = 0
        self.traces = 0
        self.nt_hashes = set()
        self.all_hashes = set()
        self.samples = []
        self.viols = []
        self.nviol = 0
        self.errors = []
        self.skip_reasons = collections.Counter()
        self.extra = collections.Counter()

    def add_result(self, space, case, r):
        self.cases += 1
        self.states += r.get('add_states', 0)
        self.transitions += r.get('add_transitions', 0)
        self.evals += r.get('evals', 1)
        self.traces += r.get('traces', 0)
        v = r['v']
        if v == 'skip':
            self.skipped += 1
            self.skip_reasons[r.get('reason', '')] += 1
            return
        if v == 'error':
            if len(self.errors) < 3:
                self.errors.append({'space': space.name, 'case': case, 'msg': r['msg']})
            return
        if r.get('extra'):
            for k, n in r['extra'].items():
                self.extra[k] += n
        out = r.get('outcome')
        if out is not None:
            hh = out if isinstance(out, int) else h64(out)
            self.all_hashes.add(hh)
            if r.get('nt'):
                self.nt_hashes.add(hh)
        elif r.get('nt'):
            self.nt_hashes.add(h64(case))
        if v == 'viol' and KNOWN_MATCH is not None and KNOWN_MATCH(r['sig']):
            self.extra['known_finding_hits'] += 1
            if not any(x.get('known') for x in self.viols):
                self.viols.append({'space': space.name, 'case': case, 'task': getattr(self, 'task', None), 'signature': r['sig'],
                                   'message': r['msg'], 'expected': r.get('expected'), 'observed': r.get('observed'), 'known': True})
        elif v == 'viol':
            self.nviol += 1
            if len(self.viols) < MAX_VIOL_PER_TASK:
                self.viols.append({'space': space.name, 'case': case, 'task': getattr(self, 'task', None), 'signature': r['sig'],
                                   'message': r['msg'], 'expected': r.get('expected'),
                                   'observed': r.get('observed')})
        elif r.get('sample') is not None and len(self.samples) < MAX_SAMPLES_PER_TASK:
            self.samples.append({'space': space.name, 'case': case, 'observed': r['sample']})
        elif r.get('nt') and len(self.samples) < MAX_SAMPLES_PER_TASK:
            self.samples.append({'space': space.name, 'case': case})

    def dump(self):
        return {'states': self.states, 'transitions': self.transitions, 'evals': self.evals,
                'cases': self.cases, 'skipped': self.skipped, 'traces': self.traces,
                'nt': self.nt_hashes, 'all': self.all_hashes, 'samples': self.samples,
                'viols': self.viols, 'nviol': self.nviol, 'errors': self.errors,
                'skip_reasons': dict(self.skip_reasons), 'extra': dict(self.extra)}


def walk_subtree(space, start, seen=None, deadline=None):
    """Breadth-first walk of the sub-tree rooted at ``start`` (the root itself was counted by the
    parent).  Returns an aggregate."""
    agg = _Agg()
    agg.task = list(start)
    frontier = collections.deque([start])
    if space.is_case(start):
        agg.add_result(space, space.case(start), safe_evaluate(space, space.case(start)))
    while frontier:
        node = frontier.popleft()
        for ch in space.children(node):
            agg.transitions += 1
            if seen is not None:
                k = space.key(ch)
                if k is not None:
                    if k in seen:
                        continue
                    seen.add(k)
            agg.states += 1
            if space.is_case(ch):
                c = space.case(ch)
                agg.add_result(space, c, safe_evaluate(space, c))
            frontier.append(ch)
        if deadline is not None and time.time() > deadline:
            agg.errors.append({'space': space.name, 'case': list(node), 'msg': 'TIMEOUT in sub-tree'})
            break
    return agg


def _worker(spaces, tasks, results, stop, slots, slot):
    try:
        os.setsid()          # own process group, so that a hung worker can be killed with its Pool children
    except Exception:      # noqa
        pass
    try:
        import faulthandler, signal
        faulthandler.register(signal.SIGUSR1, all_threads=True)
    except Exception:      # noqa
        pass
    try:
        import matplotlib
        matplotlib.use('Agg')
    except Exception:      # noqa
        pass
    while True:
        item = tasks.get()
        if item is None:
            break
        tid, si, node = item
        slots[slot] = tid          # shared memory: visible to the parent even if this process dies
        if stop.is_set():
            results.put(('done', tid, si, None))
            continue
        try:
            from bcmc.childproc import run_in_child
            status, res = run_in_child(_task_body, (spaces, si, node), timeout=10 ** 7, new_session=False)
            if status == 'ok':
                results.put(('done', tid, si, res))
            elif status == 'exc':
                results.put(('done', tid, si, {'fatal': res}))
            else:
                os._exit(7)          # the child died: let the parent's watchdog treat it as a crash of this task
        except BaseException as e:      # noqa
            results.put(('done', tid, si, {'fatal': traceback.format_exc()}))


def _task_body(spaces, si, node):
    return walk_subtree(spaces[si], node).dump()


def in_fresh_child(fn, *args, timeout=3600):
    """Run fn(*args) in a forked child of the calling (pristine) process."""
    from bcmc.childproc import run_in_child
    status, res = run_in_child(fn, args, timeout=timeout)
    if status != 'ok':
        raise RuntimeError('child %s: %s' % (status, str(res)[-800:]))
    return res


def _killpg(pid):
    import signal
    try:
        os.killpg(pid, signal.SIGKILL)
    except Exception:      # noqa
        try:
            os.kill(pid, signal.SIGKILL)
        except Exception:      # noqa
            pass


def explore(spaces, jobs=16, max_viol=40, log=None, task_timeout=None):
    """Explore all spaces; return a merged report dict.

    A sub-tree that produces no result within ``task_timeout`` seconds (or whose worker dies) is
    re-queued on a fresh worker up to two times; a sub-tree that hangs or crashes three times is
    reported as a violation (kind 'hang' / 'crash') - never silently skipped."""
    log = log or (lambda *a: None)
    task_timeout = float(os.environ.get('BCMC_TASK_TIMEOUT', 0)) or task_timeout or 420.0
    task_timeout = max([task_timeout] + [float(getattr(sp, 'task_timeout', 0) or 0) for sp in spaces])
    ctx = mp.get_context('fork')
    tasks = ctx.Queue()
    results = ctx.SimpleQueue()      # no feeder thread in the workers: every task is forked from a single-threaded process
    stop = ctx.Event()

    # parent part: BFS down to split_depth
    per_space = []
    task_list = []
    for si, sp in enumerate(spaces):
        agg = _Agg()
        agg.states = 1
        frontier = [sp.root()]
        if sp.is_case(sp.root()):
            c = sp.case(sp.root())
            agg.add_result(sp, c, safe_evaluate(sp, c))
        depth = 0
        while depth < sp.split_depth and frontier:
            nxt = []
            for node in frontier:
                for ch in sp.children(node):
                    agg.transitions += 1
                    agg.states += 1
                    nxt.append(ch)
            depth += 1
            if depth < sp.split_depth:
                # cases strictly above the split depth are evaluated in the parent
                for ch in nxt:
                    if sp.is_case(ch):
                        c = sp.case(ch)
                        agg.add_result(sp, c, safe_evaluate(sp, c))
            frontier = nxt
        for node in frontier:
            task_list.append((len(task_list), si, node))
        per_space.append(agg)

    nproc = max(1, min(jobs, len(task_list)))
    procs = {}
    slots = ctx.Array('i', [-1] * (nproc + 3 * 64 + 8), lock=False)
    slot_of = {}

    def spawn():
        k = len(slot_of)
        if k >= len(slots):
            return
        p = ctx.Process(target=_worker, args=(spaces, tasks, results, stop, slots, k))
        p.daemon = False
        p.start()
        procs[p.pid] = p
        slot_of[p.pid] = k

    for _ in range(nproc if task_list else 0):
        spawn()
    for t in task_list:
        tasks.put(t)

    got = {}
    running = {}          # tid -> (pid, start time)
    retries = collections.Counter()
    fatal = None
    total_viol = sum(a.nviol for a in per_space)
    complete = True
    hang_viols = []

    def give_up_or_retry(tid, why):
        retries[tid] += 1
        _, si, node = task_list[tid]
        if retries[tid] >= 3:
            sp = spaces[si]
            hang_viols.append((si, {'space': sp.name, 'case': sp.case(node) if sp.is_case(node) else list(node),
                                    'signature': {'kind': why, 'space': sp.name},
                                    'message': 'sub-tree %s of %s %s three times (limit %ds)' % (list(node), sp.name, why, task_timeout),
                                    'expected': None, 'observed': None}))
            got[tid] = (si, None)
            return
        log('  !! sub-tree %d (%s %s) %s - retry %d on a fresh worker' % (tid, spaces[si].name, list(node), why, retries[tid]))
        spawn()
        tasks.put(task_list[tid])

    try:
        while len(got) < len(task_list):
            try:
                msg = results.get() if results._reader.poll(2.0) else None
            except (_queue.Empty, EOFError, OSError):
                msg = None
            now = time.time()
            for pid, k in slot_of.items():
                tid = slots[k]
                if pid in procs and tid >= 0 and tid not in got and running.get(tid, (None,))[0] != pid:
                    running[tid] = (pid, now)
            if msg is not None:
                _, tid, si, res = msg
                running.pop(tid, None)
                if tid in got:
                    continue
                got[tid] = (si, res)
                if res is None:
                    complete = False
                elif 'fatal' in res:
                    fatal = res['fatal']
                    stop.set()
                else:
                    total_viol += res['nviol']
                    if total_viol >= max_viol and not stop.is_set():
                        stop.set()
                    if len(got) % 200 == 0:
                        log('  ... %d/%d sub-trees' % (len(got), len(task_list)))
            # watchdog: hung or dead workers
            for tid, (pid, t0) in list(running.items()):
                p = procs.get(pid)
                dead = p is not None and not p.is_alive()
                if dead or now - t0 > task_timeout:
                    running.pop(tid, None)
                    if not dead:
                        try:
                            import signal
                            os.kill(pid, signal.SIGUSR1)      # stack dump to stderr for diagnosis
                            time.sleep(0.3)
                        except Exception:      # noqa
                            pass
                    _killpg(pid)
                    procs.pop(pid, None)
                    if tid not in got:
                        give_up_or_retry(tid, 'crash' if dead else 'hang')
            if not running and not any(p.is_alive() for p in procs.values()) and len(got) < len(task_list):
                # every worker is gone although tasks remain (should not happen): start over with fresh ones
                if sum(retries.values()) > 3 * len(task_list):
                    fatal = 'workers keep dying'
                    break
                retries['_respawn'] += 1
                if retries['_respawn'] > 5:
                    fatal = 'all workers died repeatedly'
                    break
                spawn()
    finally:
        for _ in range(len(procs) + 4):
            tasks.put(None)
        deadline = time.time() + 20
        for p in list(procs.values()):
            p.join(timeout=max(0.1, deadline - time.time()))
        for pid, p in list(procs.items()):
            if p.is_alive():
                _killpg(pid)
                p.join(timeout=5)
    for si, hv in hang_viols:
        per_space[si].nviol += 1
        per_space[si].viols.append(hv)
        complete = False

    # deterministic merge
    report = {'spaces': [], 'fatal': fatal, 'complete': complete and not fatal}
    for si, sp in enumerate(spaces):
        a = per_space[si]
        m = a.dump()
        for tid in sorted(got):
            s2, res = got[tid]
            if s2 != si or res is None or 'fatal' in res:
                continue
            for k in ('states', 'transitions', 'evals', 'cases', 'skipped', 'traces', 'nviol'):
                m[k] += res[k]
            m['nt'] |= res['nt']
            m['all'] |= res['all']
            if len(m['samples']) < 3:
                m['samples'].extend(res['samples'][:3 - len(m['samples'])])
            m['viols'].extend(res['viols'])
            m['errors'].extend(res['errors'])
            for k, n in res['skip_reasons'].items():
                m['skip_reasons'][k] = m['skip_reasons'].get(k, 0) + n
            for k, n in res['extra'].items():
                m['extra'][k] = m['extra'].get(k, 0) + n
        m['name'] = sp.name
        m['describe'] = sp.describe
        m['bounds'] = sp.bounds()
        report['spaces'].append(m)
    return report


# ------------------------------------------------------------------------------------------------
# explicit-state BFS with de-duplication, sequential (used for object / history spaces whose
# canonical state key is only known after executing the real code)

def bfs_states(init_states, successors, max_depth, invariant=None):
    """Generic BFS: ``init_states`` list of (key, state, history); ``successors(state, history)``
    yields (label, key, state, violation-or-None).  Returns dict with counts and violations."""
    seen = set()
    frontier = collections.deque()
    viols = []
    states = transitions = 0
    for key, st, hist in init_states:
        if key in seen:
            continue
        seen.add(key)
        states += 1
        frontier.append((st, hist, 0))
    maxd = 0
    while frontier:
        st, hist, d = frontier.popleft()
        maxd = max(maxd, d)
        if d >= max_depth:
            continue
        for label, key, nst, viol in successors(st, hist):
            transitions += 1
            if viol is not None:
                viols.append(viol)
                continue
            if key not in seen:
                seen.add(key)
                states += 1
                frontier.append((nst, hist + [label], d + 1))
    return {'states': states, 'transitions': transitions, 'viols': viols, 'max_depth': maxd}
