"""Known-findings matcher.  The file is committed and never written at run time."""
import json
import os

PATH = os.path.join(os.path.dirname(os.path.dirname(os.path.abspath(__file__))),
                    'known_findings.json')


def load():
    if not os.path.exists(PATH):
        return []
    with open(PATH) as f:
        return json.load(f).get('findings', [])


def _norm(v):
    if isinstance(v, (list, tuple)):
        return [_norm(x) for x in v]
    if isinstance(v, dict):
        return {k: _norm(x) for k, x in sorted(v.items())}
    return v


def match(prop, signature, entries=None):
    """Return the *known* (not fixed) entry whose signature is a sub-dict of ``signature``."""
    entries = load() if entries is None else entries
    sig = _norm(signature)
    for e in entries:
        if e.get('status') != 'known' or e.get('property') != prop:
            continue
        es = _norm(e.get('signature', {}))
        if es and all(k in sig and sig[k] == v for k, v in es.items()):
            return e
    return None
