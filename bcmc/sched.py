"""Schedules of multiprocessing.Pool.imap: TLC model -> completion orders -> executors.

* ``model_orders(n, w)``: runs TLC on models/PoolImap.tla for (N, W) = (n, w), parses the dumped state graph and
  returns (orders, info) where orders = the `done` sequences of the terminal states.  The independent Python
  enumerator ``feasible_orders`` is asserted to produce the same set (a difference is a harness error).
* ``VirtualPool``: in-process stand-in for Pool that pickles (func, arg) per task and results back (so tasks share
  exactly what the process boundary allows), runs the tasks in the chosen completion order and yields like Pool.
* ``RealGate``: forces a completion order in REAL Pool worker processes by making each task wait for the completion
  markers of its predecessors in the order.
"""
import os
import itertools
import pickle
import re
import shutil
import subprocess
import tempfile
import time

VERIF = os.path.dirname(os.path.dirname(os.path.abspath(__file__)))
WORK = os.path.join(VERIF, '.work')


def feasible_orders(n, w):
    out = []

    def rec(next_t, inflight, done):
        inflight = list(inflight)
        while len(inflight) < w and next_t < n:
            inflight.append(next_t)
            next_t += 1
        if not inflight:
            out.append(tuple(done))
            return
        for t in inflight:
            rec(next_t, [x for x in inflight if x != t], done + [t])
    rec(0, [], [])
    return sorted(set(out))


_CACHE = {}


def model_orders(n, w):
    """(orders, info) from TLC; falls back to the Python enumerator if TLC cannot run (info says so)."""
    key = (n, w)
    if key in _CACHE:
        return _CACHE[key]
    py = feasible_orders(n, w)
    info = {'N': n, 'W': w, 'engine': 'python-fallback', 'states': 0, 'transitions': 0, 'terminal': len(py)}
    tlc = shutil.which('tlc')
    if tlc:
        os.makedirs(WORK, exist_ok=True)
        d = tempfile.mkdtemp(prefix='tlc_', dir=WORK)
        try:
            shutil.copy(os.path.join(VERIF, 'models', 'PoolImap.tla'), d)
            with open(os.path.join(d, 'P.cfg'), 'w') as f:
                f.write('CONSTANTS N = %d\nW = %d\nINIT Init\nNEXT Next\nINVARIANT Inv\n' % (n, w))
            r = subprocess.run([tlc, '-workers', '1', '-deadlock', '-noGenerateSpecTE', '-metadir', os.path.join(d, 'meta'),
                                '-dump', 'dot,actionlabels', os.path.join(d, 'out.dot'), '-config', 'P.cfg', 'PoolImap.tla'],
                               cwd=d, capture_output=True, text=True, timeout=300)
            txt = r.stdout
            if 'No error has been found' in txt and os.path.exists(os.path.join(d, 'out.dot')):
                nodes, edges = {}, set()
                for line in open(os.path.join(d, 'out.dot')):
                    m = re.match(r'^(-?\d+) \[label="([^"]*)"', line)
                    if m:
                        nodes[m.group(1)] = m.group(2)
                        continue
                    m = re.match(r'^(-?\d+) -> (-?\d+) ', line)
                    if m:
                        edges.add((m.group(1), m.group(2)))
                has_out = {a for a, b in edges if a != b}
                orders = []
                for nid, lab in nodes.items():
                    if nid in has_out:
                        continue
                    m = re.search(r'done = <<([^>]*)>>', lab)
                    seq = tuple(int(x) for x in m.group(1).split(',') if x.strip() != '')
                    orders.append(seq)
                orders = sorted(set(orders))
                if orders != py:
                    raise RuntimeError('TLC orders %s != Python enumerator %s for N=%d W=%d' % (orders, py, n, w))
                info = {'N': n, 'W': w, 'engine': 'TLC', 'states': len(nodes), 'transitions': len(edges),
                        'terminal': len(orders), 'invariant': 'Inv holds'}
            elif 'Invariant Inv is violated' in txt:
                raise RuntimeError('PoolImap invariant violated for N=%d W=%d' % (n, w))
            else:
                info['tlc_problem'] = txt[-300:]
        except (OSError, subprocess.TimeoutExpired) as e:
            info['tlc_problem'] = repr(e)
        finally:
            shutil.rmtree(d, ignore_errors=True)
    _CACHE[key] = (py, info)
    return _CACHE[key]


# ------------------------------------------------------------------------------------------------

class HarnessError(Exception):
    pass


class VirtualPool:
    """Deterministic Pool replacement; ``VirtualPool.order`` must be set to the completion order to enact."""
    order = None
    constructed = 0
    mismatch = 0
    log = None

    def __init__(self, processes=None, *a, **k):
        if processes is not None and processes < 1:
            raise ValueError('Number of processes must be at least 1')
        self.w = processes
        VirtualPool.constructed += 1

    def __enter__(self):
        return self

    def __exit__(self, *a):
        return False

    def close(self):
        pass

    def join(self):
        pass

    def terminate(self):
        pass

    def _run(self, func, iterable, chunksize=1):
        # the process boundary.  As in multiprocessing, ``chunksize`` items are TAKEN from the iterable before the batch is
        # serialised (Pool.map takes all of them first): a generator that re-uses one buffer aliases within a batch
        it, tasks = iter(iterable), []
        while True:
            batch = tuple(itertools.islice(it, max(1, int(chunksize or 1))))
            if not batch:
                break
            f2, xs = pickle.loads(pickle.dumps((func, batch)))
            tasks.extend(pickle.dumps((f2, x)) for x in xs)
        n = len(tasks)
        order = list(VirtualPool.order) if VirtualPool.order is not None else list(range(n))
        if sorted(order) != list(range(n)):
            # the implementation dispatches another number of tasks than the model assumes (e.g. it batches rows):
            # the schedule does not apply; run in submission order and say so (never an alarm by itself)
            VirtualPool.mismatch += 1
            order = list(range(n))
        results = {}
        for t in order:
            f, x = pickle.loads(tasks[t])
            results[t] = pickle.loads(pickle.dumps(f(x)))
        if VirtualPool.log is not None:
            VirtualPool.log.append((n, self.w, tuple(order)))
        return order, results

    def imap(self, func, iterable, chunksize=1):
        order, res = self._run(func, iterable, chunksize)
        return iter([res[i] for i in range(len(res))])

    def map(self, func, iterable, chunksize=None):
        items = list(iterable)                        # Pool.map materialises the iterable first
        order, res = self._run(func, items, max(1, len(items)))
        return [res[i] for i in range(len(res))]

    def starmap(self, func, iterable, chunksize=None):
        return self.map(_Star(func), iterable)

    def imap_unordered(self, func, iterable, chunksize=1):
        order, res = self._run(func, iterable, chunksize)
        return iter([res[i] for i in order])

    def map_async(self, func, iterable, chunksize=None, callback=None, error_callback=None):
        r = self.map(func, iterable)
        if callback:
            callback(r)
        return _Async(r)

    def apply_async(self, func, args=(), kwds=None, callback=None, error_callback=None):
        r = func(*args, **(kwds or {}))
        if callback:
            callback(r)
        return _Async(r)


class _Star:
    def __init__(self, f):
        self.f = f

    def __call__(self, args):
        return self.f(*args)


class _Async:
    def __init__(self, r):
        self.r = r

    def get(self, timeout=None):
        return self.r

    def wait(self, timeout=None):
        pass

    def ready(self):
        return True

    def successful(self):
        return True


class patched_pool:
    """Context manager: bycycle.group.features uses VirtualPool (and cpu_count() == ncpu)."""

    def __init__(self, order, ncpu=2):
        self.order, self.ncpu = order, ncpu

    def __enter__(self):
        import bycycle.group.features as gf
        self.gf = gf
        self.saved = (gf.Pool, gf.cpu_count)
        gf.Pool = VirtualPool
        gf.cpu_count = lambda: self.ncpu
        VirtualPool.order = self.order
        VirtualPool.constructed = 0
        VirtualPool.mismatch = 0
        VirtualPool.log = []
        return self

    def __exit__(self, *a):
        self.gf.Pool, self.gf.cpu_count = self.saved
        VirtualPool.order = None
        return False


# ------------------------------------------------------------------------------------------------

class RealGate:
    """Force a completion order in real Pool workers.  Task identity = bytes of the (flattened) signal."""
    TIMEOUT = 20.0

    def __init__(self, keys, order, ncpu=2):
        self.keys = {k: i for i, k in enumerate(keys)}
        self.order = list(order)
        self.ncpu = ncpu
        self.dir = None

    def __enter__(self):
        import numpy as np
        import bycycle.features.features as ff
        import bycycle.features as fpk
        import bycycle.group.features as gf
        os.makedirs(WORK, exist_ok=True)
        self.dir = tempfile.mkdtemp(prefix='gate_', dir=WORK)
        orig = ff.compute_features
        keys, order, d, timeout = self.keys, self.order, self.dir, self.TIMEOUT

        def compute_features(sig, *a, **k):
            i = keys.get(np.ascontiguousarray(np.asarray(sig, dtype=float)).tobytes())
            if i is not None and i in order:
                pos = order.index(i)
                t0 = time.time()
                for j in order[:pos]:
                    while not os.path.exists('%s/done%d' % (d, j)):
                        if time.time() - t0 > timeout:
                            open('%s/timeout%d' % (d, i), 'w').close()
                            break
                        time.sleep(0.0005)
            r = orig(sig, *a, **k)
            if i is not None:
                with open('%s/done%d' % (d, i), 'w') as f:
                    f.write(repr(time.time()))
            return r
        compute_features.__module__ = orig.__module__
        compute_features.__qualname__ = orig.__qualname__
        compute_features.__name__ = orig.__name__
        self.saved = (ff, fpk, gf, orig, gf.cpu_count)
        ff.compute_features = compute_features
        fpk.compute_features = compute_features
        gf.compute_features = compute_features
        gf.cpu_count = lambda: self.ncpu
        return self

    def observed(self):
        done = []
        for i in range(len(self.keys)):
            p = '%s/done%d' % (self.dir, i)
            if os.path.exists(p):
                done.append((float(open(p).read() or 0), i))
        timeouts = [f for f in os.listdir(self.dir) if f.startswith('timeout')]
        return tuple(i for _, i in sorted(done)), timeouts

    def __exit__(self, *a):
        ff, fpk, gf, orig, cc = self.saved
        ff.compute_features = orig
        fpk.compute_features = orig
        gf.compute_features = orig
        gf.cpu_count = cc
        shutil.rmtree(self.dir, ignore_errors=True)
        return False


class tqdm_mode:
    """'absent': importing tqdm fails; 'stub': a minimal tqdm module is present."""

    def __init__(self, mode):
        self.mode = mode

    def __enter__(self):
        import sys
        import types
        self.saved = {k: sys.modules.get(k, 'MISSING') for k in ('tqdm', 'tqdm.notebook')}
        if self.mode == 'absent':
            sys.modules['tqdm'] = None
        elif self.mode == 'stub':
            m = types.ModuleType('tqdm')

            def tqdm(iterable, desc=None, total=None, dynamic_ncols=None, **k):
                for x in iterable:
                    yield x
            m.tqdm = tqdm
            sys.modules['tqdm'] = m
        return self

    def __exit__(self, *a):
        import sys
        for k, v in self.saved.items():
            if v == 'MISSING':
                sys.modules.pop(k, None)
            else:
                sys.modules[k] = v
        return False
