"""C04 - every shape feature equals its documented definition.

Spaces: (i) words x centring x samples on/off x filter / boundary deviations through compute_features and
compute_shape_features: each column is recomputed from the row's own sample columns and the ORIGINAL
signal with hand-written definitions for both centrings; (ii) the helper functions compute_durations /
compute_extrema_voltage / compute_symmetry / compute_band_amp on every synthetic tiling cyclepoint table
over every small integer signal."""
import itertools

import numpy as np
import pandas as pd

from bcmc.explore import ProductSpace, OK, VIOL, SKIP
from bcmc import spaces as S
from bcmc.pipe import precondition, run_cf, sample_cols
from bcmc.ref.shape import ref_shape_row, ref_band_amp
from bcmc.ref.table import same_values, diff_tables, table_hash

LEVEL = 'model_checking'
RULE = ('product tree letters -> option set (pipeline) and sample values (helper functions, each signal evaluated on '
        'every tiling cyclepoint table); non-trivial = table with >= 2 distinct time_rdsym values; distinct = distinct '
        'feature-table hashes')
ASSUMPTIONS = ['neurodsp amp_by_time (3 cycles) is the trusted base for band_amp',
               'float columns compared with rtol 1e-9 / atol 1e-12, integer columns exactly']

SHAPE_COLS = ['period', 'time_rise', 'time_decay', 'time_peak', 'time_trough', 'volt_peak', 'volt_trough',
              'volt_rise', 'volt_decay', 'volt_amp', 'time_rdsym', 'time_ptsym']
INT_COLS = {'period', 'time_rise', 'time_decay', 'time_peak', 'time_trough'}


def check_shape_table(df, sig, o, sgn):
    centre = o['center_extrema']
    sc = sample_cols(centre)
    rows = df.to_dict('records')
    exp = [ref_shape_row(r, sig, centre) for r in rows]
    for c in SHAPE_COLS:
        if c not in df.columns:
            return VIOL(dict(sgn, kind='column', col=c), 'missing column %s' % c)
        got = df[c].to_numpy().astype(float)
        want = np.array([e[c] for e in exp], dtype=float)
        if not same_values(got, want, exact=c in INT_COLS):
            return VIOL(dict(sgn, kind='value', col=c), 'column %s differs from its definition' % c,
                        expected=want.tolist(), observed=got.tolist())
    rd = df['time_rdsym'].to_numpy()
    pt = df['time_ptsym'].to_numpy()
    if not (np.all(rd > 0) and np.all(rd < 1)):
        return VIOL(dict(sgn, kind='range', col='time_rdsym'), 'time_rdsym not in (0,1)', observed=rd.tolist())
    if not np.all((pt >= 0) & (pt <= 1) | np.isnan(pt)):
        return VIOL(dict(sgn, kind='range', col='time_ptsym'), 'time_ptsym not in [0,1]', observed=pt.tolist())
    if not same_values(df['period'].to_numpy(), (df['time_rise'] + df['time_decay']).to_numpy(), exact=True):
        return VIOL(dict(sgn, kind='value', col='period'), 'period != time_rise + time_decay')
    want = ref_band_amp(sig, o['fs'], o['f_range'], df[sc['last']], df[sc['next']])
    if not same_values(df['band_amp'].to_numpy(), want):
        return VIOL(dict(sgn, kind='value', col='band_amp'), 'band_amp is not the mean analytic amplitude over [last, next)',
                    expected=want, observed=df['band_amp'].tolist())
    return None


def eval_pipeline(case):
    from bycycle.features import compute_shape_features
    letters, devs = case[:-1], tuple(case[-1])
    w = ''.join(letters)
    o = S.resolve(devs)
    sig = S.make_signal(w, o)
    ok, why, ref = precondition(sig, o)
    if not ok:
        return SKIP(why)
    sgn = {'centre': o['center_extrema'], 'method': o['burst_method'], 'devs': list(devs)}
    df = run_cf(sig, o, return_samples=True)
    v = check_shape_table(df, sig, o, sgn)
    if v is not None:
        return v
    nev = 1
    if devs in ((), ('trough',)):
        # rows handed back by limit_df (sample columns re-based to the window start, incl. a start on the HALF-sample grid): every
        # feature must still be the documented function of the row's own cyclepoints and the windowed signal
        from bycycle.utils import limit_df
        sc_ = sample_cols(o['center_extrema'])
        for start_samp in (12.5, 9, 6.5):
            out = limit_df(df.copy(), o['fs'], start=start_samp / o['fs'], stop=None, reset_indices=True)
            nev += 1
            if len(out) == 0:
                continue
            kept = df[df[sc_['last']] >= start_samp]
            if len(kept) != len(out):
                continue          # row selection is C18's matter
            shifts = set((kept[sc_['centre']].to_numpy() - out[sc_['centre']].to_numpy()).tolist())
            if len(shifts) != 1:
                continue
            sh = int(shifts.pop())
            exp = [ref_shape_row(r, sig[sh:], o['center_extrema']) for r in out.to_dict('records')]
            for c in SHAPE_COLS:
                if not same_values(out[c].to_numpy().astype(float), np.array([e[c] for e in exp], dtype=float), exact=c in INT_COLS):
                    return VIOL(dict(sgn, kind='value', col=c, via='limit_df'), 'after limit_df(start=%g/fs, reset_indices=True) column %s is no longer '
                                'the documented function of the row\'s own cyclepoints' % (start_samp, c),
                                expected=[e[c] for e in exp], observed=out[c].tolist(), evals=nev)
    # compute_shape_features itself
    kw = S.call_kwargs(o)
    dsh = compute_shape_features(np.array(sig), o['fs'], o['f_range'], center_extrema=o['center_extrema'],
                                 find_extrema_kwargs=kw.get('find_extrema_kwargs'))
    nev += 1
    dd = diff_tables(dsh, df[list(dsh.columns)] if set(dsh.columns) <= set(df.columns) else df, exact=True)
    if dd:
        return VIOL(dict(sgn, kind='shape-vs-features'), 'compute_shape_features differs from compute_features: ' + dd)
    if not o['return_samples']:
        d2 = run_cf(sig, o)
        nev += 1
        keep = [c for c in df.columns if not c.startswith('sample_')]
        if any(c.startswith('sample_') for c in d2.columns):
            return VIOL(dict(sgn, kind='nosamples'), 'sample columns present with return_samples=False')
        dd = diff_tables(d2, df[keep], exact=True)
        if dd:
            return VIOL(dict(sgn, kind='nosamples'), 'without sample columns the table differs: ' + dd)
    nt = len(set(np.round(df['time_rdsym'].to_numpy(), 9).tolist())) >= 2
    return OK(outcome=table_hash(df, SHAPE_COLS + ['band_amp']), nontrivial=nt, evals=nev,
              sample={'time_rdsym': df['time_rdsym'].tolist(), 'volt_amp': df['volt_amp'].tolist()} if nt else None)


def eval_aliased(case):
    """The caller re-uses ONE pre-allocated array: it is analysed with decoy content, overwritten in place with the
    real signal and analysed again; the second table must follow the definitions for the NEW content (a result may
    depend only on the values of its arguments, not on the identity of the array object)."""
    from bycycle.features import compute_features, compute_shape_features
    from bycycle import Bycycle
    letters, (centre, entry) = case[:-1], case[-1]
    w = ''.join(letters)
    o = S.resolve(('trough',) if centre == 'trough' else ())
    sig = S.make_signal(w, o)
    ok, why, ref = precondition(sig, o)
    decoy = 2.0 * sig[::-1] + 1.0
    ok2, _, _ = precondition(decoy, o)
    if not ok or not ok2:
        return SKIP(why or 'decoy precondition')
    buf = np.empty(len(sig))
    kw = S.call_kwargs(o)
    sgn = {'centre': centre, 'via': 'aliased-buffer', 'entry': entry, 'devs': []}
    bm = Bycycle(center_extrema=centre, thresholds=dict(S.T0))
    for content in (decoy, sig):
        buf[:] = content
        if entry == 'compute_features':
            df = compute_features(buf, o['fs'], o['f_range'], **kw)
        elif entry == 'compute_shape_features':
            df = compute_shape_features(buf, o['fs'], o['f_range'], center_extrema=centre)
        else:
            bm.fit(buf, o['fs'], o['f_range'])
            df = bm.df_features
    v = check_shape_table(df, sig, o, sgn)
    if v is not None:
        v['msg'] = 'after the same array object was overwritten in place: ' + v['msg']
        return v
    return OK(outcome=(w, centre, entry, table_hash(df, SHAPE_COLS + ['band_amp'])), nontrivial=True, evals=2)


def eval_epoched(case):
    """Tables returned per epoch by compute_features_2d(axis=None): every row, with the epoch offset added back to its
    sample columns, must satisfy the shape definitions against the flattened signal."""
    from bycycle.group import compute_features_2d
    import pandas as pd
    letters, (centre, E) = case[:-1], case[-1]
    w = ''.join(letters)
    o = S.resolve(('trough',) if centre == 'trough' else ())
    sig = S.make_signal(w, o)
    if len(sig) % E:
        return SKIP('length not a multiple of the epoch length')
    ok, why, ref = precondition(sig, o)
    if not ok:
        return SKIP(why)
    dfs = compute_features_2d(sig.reshape(-1, E).copy(), 64, (6, 14), {'center_extrema': centre, 'threshold_kwargs': dict(S.T0)}, axis=None)
    parts = []
    for e, d in enumerate(dfs):
        d = d.copy()
        for c in d.columns:
            if c.startswith('sample_'):
                d[c] = d[c] + e * E
        parts.append(d)
    full = pd.concat(parts, ignore_index=True)
    if len(full) == 0:
        return SKIP('no cycles')
    v = check_shape_table(full, sig, o, {'centre': centre, 'via': 'epoched', 'devs': []})
    if v is not None:
        v['msg'] = 'epoched table (offsets added back): ' + v['msg']
        return v
    # the documented next step: flatten_dfs(list, labels) - every row still belongs to the epoch (signal stretch) its label names
    from bycycle.utils import flatten_dfs
    labels = ['ep%02d' % e for e in range(len(dfs))]
    flat = flatten_dfs([d.copy() for d in dfs], labels)
    sc = sample_cols(centre)
    for lab, grp in flat.groupby('Label', sort=False):
        e = labels.index(lab)
        g = grp.drop(columns=['Label']).reset_index(drop=True)
        for c in g.columns:
            if c.startswith('sample_'):
                g[c] = g[c] + e * E
        v = check_shape_table(g, sig, o, {'centre': centre, 'via': 'epoched+flatten_dfs', 'devs': []}) if len(g) else None
        if v is not None:
            v['msg'] = 'rows labelled %s after flatten_dfs, read against epoch %d of the signal: ' % (lab, e) + v['msg']
            return v
    if len(flat) != len(full):
        return VIOL({'centre': centre, 'via': 'epoched+flatten_dfs', 'kind': 'rows', 'devs': []}, 'flatten_dfs returned %d rows for %d cycles' % (len(flat), len(full)))
    return OK(outcome=(w, centre, E, table_hash(full, SHAPE_COLS)), nontrivial=sum(1 for d in dfs if len(d)) >= 2)


# ---- helper functions on synthetic tiling tables ---------------------------------------------------
_TABLES = {}


def tiling_tables(T):
    """All peak-centred cyclepoint tables tiling a stretch of [0,T): side extrema with gaps >= 2, every centre
    position, midpoints at the ends or the middle of their allowed closed interval."""
    if T in _TABLES:
        return _TABLES[T]
    out = []
    for k in (2, 3, 4):
        for sides in itertools.combinations(range(T), k):
            if any(b - a < 2 for a, b in zip(sides[:-1], sides[1:])):
                continue
            per_cycle = []
            for a, b in zip(sides[:-1], sides[1:]):
                opts = []
                for c in range(a + 1, b):
                    for r in sorted({a, (a + c) // 2, c}):
                        for d in sorted({c, (c + b) // 2, b}):
                            opts.append((a, c, b, r, d))
                per_cycle.append(opts)
            for combo in itertools.product(*per_cycle):
                for lz in sorted({0, sides[0]}):
                    rows = []
                    prev_d = lz
                    for (a, c, b, r, d) in combo:
                        rows.append({'sample_peak': c, 'sample_last_zerox_decay': prev_d, 'sample_zerox_decay': d,
                                     'sample_zerox_rise': r, 'sample_last_trough': a, 'sample_next_trough': b})
                        prev_d = d
                    out.append(rows)
    _TABLES[T] = out
    return out


def eval_helpers(case):
    from bycycle.features.shape import compute_durations, compute_extrema_voltage, compute_symmetry
    sig = np.array(case, dtype=float)
    T = len(sig)
    nev = 0
    acc = []
    for rows in tiling_tables(T):
        dfs = pd.DataFrame(rows)
        exp = [ref_shape_row(r, sig, 'peak') for r in rows]
        period, tp, tt = compute_durations(dfs)
        vp, vt = compute_extrema_voltage(dfs, sig)
        with np.errstate(all='ignore'):
            sym = compute_symmetry(dfs, sig)
            sym2 = compute_symmetry(dfs, sig, period=period, time_peak=tp, time_trough=tt)
        nev += 1
        got = {'period': period, 'time_peak': tp, 'time_trough': tt, 'volt_peak': vp, 'volt_trough': vt}
        got.update(sym)
        for c in SHAPE_COLS:
            g = np.asarray(got[c], dtype=float)
            wv = np.array([e[c] for e in exp], dtype=float)
            if not same_values(g, wv) or (c in sym and not same_values(np.asarray(sym2[c], float), wv)):
                return VIOL({'kind': 'helper', 'col': c}, 'helper function value for %s differs from its definition' % c,
                            expected=wv.tolist(), observed={'got': g.tolist(), 'rows': rows}, evals=nev)
        acc.append(tuple(np.round(np.asarray(got['time_ptsym'], float), 6).tolist()))
    return OK(outcome=(tuple(case), hash(tuple(acc))), nontrivial=len(set(case)) > 1, evals=nev)


def eval_group3d(case):
    """Tables returned by compute_features_3d for a non-square array of DIFFERENT signals: every table must satisfy the
    shape definitions against the signal at ITS position (axis (0,1)) / its epoch of the flattened slice (axis 0, 1 are
    covered by the epoched space)."""
    import contextlib, io
    from bycycle.group import compute_features_3d
    from bcmc import sched
    letters, (centre, shape) = case[:-1], case[-1]
    w = ''.join(letters)
    o = S.resolve(('trough',) if centre == 'trough' else ())
    n0, n1 = shape
    rows = []
    for k in range(n0 * n1):
        x = S.word_signal(w[k % len(w):] + w[:k % len(w)]) * (k + 1.0)       # rotation k of the word, amplitude k + 1
        ok, why, ref = precondition(x, o)
        if not ok:
            return SKIP(why)
        rows.append(x)
    sigs = np.array(rows).reshape(n0, n1, -1)
    with sched.patched_pool(None), contextlib.redirect_stdout(io.StringIO()):
        dfs = compute_features_3d(sigs.copy(), o['fs'], o['f_range'], compute_features_kwargs={'center_extrema': centre, 'threshold_kwargs': dict(S.T0)},
                                  axis=(0, 1), return_samples=True, n_jobs=1)
    for i in range(n0):
        for j in range(n1):
            sgn = {'centre': centre, 'via': 'compute_features_3d', 'devs': [], 'square': n0 == n1}
            v = check_shape_table(dfs[i][j], sigs[i, j], o, sgn)
            if v is not None:
                v['msg'] = 'table [%d][%d] against the signal at [%d][%d]: ' % (i, j, i, j) + v['msg']
                return v
    return OK(outcome=(w, centre, tuple(shape), table_hash(dfs[n0 - 1][n1 - 1], SHAPE_COLS + ['band_amp'])), nontrivial=True, evals=n0 * n1)


_BA_SIGS = None


def eval_bandamp(case):
    """compute_band_amp on word signals (fs=8, band 1-3 Hz, 1-cycle = 9-tap filter) x every tiling."""
    from bycycle.features.shape import compute_band_amp
    w = ''.join(case)
    sig = S.word_signal(w)
    T = len(sig)
    nev = 0
    acc = []
    for k in (2, 3, 4):
        for sides in itertools.combinations(range(0, T, 2), k):
            rows = [{'sample_peak': (a + b) // 2, 'sample_last_trough': a, 'sample_next_trough': b}
                    for a, b in zip(sides[:-1], sides[1:])]
            dfs = pd.DataFrame(rows)
            for nc in (1, 2):
                if T <= 8 * nc + 1:
                    continue
                from neurodsp.timefrequency import amp_by_time
                amp = amp_by_time(sig, 8, (1, 3), remove_edges=False, n_cycles=nc)
                want = [float(np.mean(amp[a:b])) for a, b in zip(sides[:-1], sides[1:])]
                got = compute_band_amp(dfs, sig, 8, (1, 3), n_cycles=nc)
                nev += 1
                if not same_values(np.asarray(got, float), want):
                    return VIOL({'kind': 'helper', 'col': 'band_amp'}, 'compute_band_amp is not the mean over [last, next)',
                                expected=want, observed={'got': list(map(float, got)), 'sides': list(sides), 'n_cycles': nc},
                                evals=nev)
                acc.append(tuple(np.round(want, 9)))
    return OK(outcome=(w, hash(tuple(acc))), nontrivial=True, evals=nev)


OPT_Q = [(), ('trough',), ('nosamp',), ('trough', 'nosamp'), ('nc2',), ('trough', 'ns.5'), ('b5',), ('trough', 'b1'),
         ('int',), ('int', 'trough'), ('driftdn',), ('driftup', 'trough')]
OPT_T = OPT_Q + [('amp',), ('amp', 'trough'), ('ns.375',), ('trough', 'nc2'), ('band5_12',), ('trough', 'band7_16'),
                 ('fs128',), ('trough', 'fs128'), ('x1024', 'trough'), ('dc5',), ('dc5', 'trough'), ('neg', 'trough')]


def spaces(tier, seed):
    out = []
    if True:
        al = S.alphabet(5)
        out.append(ProductSpace('W(4,5)xopts2', S.word_dims(S.alphabet(4), 5) + [OPT_Q[8:]], eval_pipeline,
                                bounds={'letters': S.alphabet(4), 'option_sets': len(OPT_Q[8:])},
                                describe='integer dtype and drifting inputs'))
        out.append(ProductSpace('W(5,5)xopts', S.word_dims(al, 5) + [OPT_Q[:4]], eval_pipeline,
                                bounds={'letters': al, 'option_sets': 4},
                                describe='all 5-letter words over 5 letters x centring x samples on/off'))
        out.append(ProductSpace('W(4,5)xopts1', S.word_dims(S.alphabet(4), 5) + [OPT_Q[4:8]], eval_pipeline,
                                bounds={'letters': S.alphabet(4), 'option_sets': 4},
                                describe='all 5-letter words over 4 letters x filter / boundary deviations'))
        out.append(ProductSpace('helpers{-1,0,2}^6', [[-1, 0, 2]] * 6, eval_helpers,
                                bounds={'tables_per_signal': len(tiling_tables(6))},
                                describe='durations / voltages / symmetry on every tiling table over every signal of length 6'))
        out.append(ProductSpace('bandamp-words', S.word_dims(S.alphabet(4), 2), eval_bandamp,
                                describe='compute_band_amp on 2-letter words x every tiling on the even grid x n_cycles 1,2'))
        ep = [(c, E) for c in ('peak', 'trough') for E in (16, 24, 8)]       # E = 8: epochs of one cycle, some of them empty
        out.append(ProductSpace('epoched-W(3,6)', S.word_dims(S.alphabet(3), 6) + [ep], eval_epoched,
                                describe='epoch tables of compute_features_2d(axis=None) checked against the definitions'))
        ali_ = ['a', 'A', 'w', 'd']
        out.append(ProductSpace('Wint(4,5)', S.word_dims(ali_, 5) + [[('int',), ('int', 'trough')]], eval_pipeline,
                                describe='integer-dtype signals whose rise + decay sums are odd (volt_amp has a fractional part)',
                                bounds={'letters': ali_}))
        alv = ['a', 's', 'l', 'v']
        out.append(ProductSpace('Wlen(4,6)xcentring', S.word_dims(alv, 6) + [[(), ('trough',)]], eval_pipeline,
                                describe='6-letter words over letters of 8 / 6 / 10 / 7 samples: signal lengths 36..60 incl. primes '
                                         '(FFT-length dependent code paths)', bounds={'letters': alv}))
        alz = ['a', 'z', 'n', 'd']
        out.append(ProductSpace('Wzero(4,5)xcentring', S.word_dims(alz, 5) + [[(), ('trough',), ('trough', 'nc2')]], eval_pipeline,
                                describe='words with exact-zero stretches (gated / blanked recordings): flanks that are all zeros take the '
                                         'centre-of-segment midpoint branch', bounds={'letters': alz}))
        g3 = [('peak', (2, 3)), ('trough', (3, 2)), ('trough', (1, 3))] if tier == 'quick' else [(c, sh) for c in ('peak', 'trough') for sh in ((2, 3), (3, 2), (1, 3), (2, 2))]
        out.append(ProductSpace('group3d-W(3,5)', S.word_dims(S.alphabet(3), 5) + [g3], eval_group3d,
                                describe='compute_features_3d(axis=(0,1)) on (non-)square arrays of different signals: every table against '
                                         'the definitions for the signal at its own position'))
        ali = [(c, e) for c in ('peak', 'trough') for e in ('compute_features', 'compute_shape_features', 'Bycycle.fit')]
        out.append(ProductSpace('aliased-buffer', S.word_dims(S.alphabet(4), 5) + [ali], eval_aliased,
                                describe='one pre-allocated array analysed twice with different content (in-place overwrite) x centring x entry point'))
    if tier != 'quick':
        al = S.alphabet(7, seed, extra=0)
        out.append(ProductSpace('W(7,5)xopts', S.word_dims(al, 5) + [OPT_Q[:8]], eval_pipeline,
                                bounds={'letters': al, 'option_sets': 8}))
        ex = S.alphabet(0, seed, extra=2) + S.alphabet(3)
        out.append(ProductSpace('Wextra(5,5)xopts', S.word_dims(ex, 5) + [OPT_T], eval_pipeline,
                                bounds={'letters': ex, 'option_sets': len(OPT_T)}))
        out.append(ProductSpace('W(5,6)xcentring', S.word_dims(S.alphabet(5), 6) + [[(), ('trough',)]], eval_pipeline,
                                bounds={'letters': S.alphabet(5)}))
        out.append(ProductSpace('helpers{-1,0,1,2}^6', [[-1, 0, 1, 2]] * 6, eval_helpers,
                                bounds={'tables_per_signal': len(tiling_tables(6))}))
        out.append(ProductSpace('bandamp-words-8', S.word_dims(S.alphabet(8), 2), eval_bandamp))
        out.append(ProductSpace('aliased-buffer-W(6,5)', S.word_dims(S.alphabet(6), 5) + [ali], eval_aliased))
    return out
