"""C02 - find_extrema reports exactly the raw-signal extremes of the closed narrow-band half-waves.

Spaces: (i) every signal in {-1,0,1}^N (and {-2..2}^8) under a tiny band-pass filter (fs=8, band 1-3 Hz,
5 or 9 taps) so that *all* signals of that length are admissible; (ii) all words over the waveform
alphabet; each x pad x boundary x first_extrema x filter settings.  Oracle: reference half-wave model
(bcmc/ref/extrema.py) using neurodsp's filter as trusted base."""
import numpy as np

from bcmc.explore import ProductSpace, OK, VIOL, SKIP
from bcmc.ref.extrema import ref_extrema
from bcmc import spaces as S

LEVEL = 'model_checking'
RULE = ('complete product trees: signal values per sample (tiny filter) or waveform letters per position (words); '
        'each leaf is run for every option combination listed in bounds; non-trivial = at least 2 peaks and 2 '
        'troughs reported; distinct = distinct (signal, extrema lists over all combos)')
ASSUMPTIONS = ['neurodsp.filt.filter_signal is the trusted base for the narrow-band signal',
               'outcome on inputs whose narrow-band signal has no upward or no downward crossing is not defined '
               'by the property (skipped, counted)']

TINY_FILTERS = [{'n_cycles': 1}, {'n_seconds': .5}]


def combos(tier, filters, boundaries):
    out = []
    for fk in filters:
        for pad in (True, False):
            for b in boundaries:
                out.append((fk, pad, b, None))
    if tier == 'quick':
        for fe in ('peak', 'trough'):
            for b in boundaries[:2]:
                out.append((filters[0], True, b, fe))
            out.append((filters[-1], False, boundaries[0], fe))
    else:
        for fk in filters:
            for pad in (True, False):
                for b in boundaries:
                    for fe in ('peak', 'trough'):
                        out.append((fk, pad, b, fe))
    return out


def check_signal(sig, fs, f_range, cmbs, tag):
    from bycycle.cyclepoints import find_extrema
    sig = np.asarray(sig, float)
    outs = []
    nt = False
    nev = 0
    nskip = 0
    cache = {}
    for fk, pad, b, fe in cmbs:
        key = (repr(fk), pad, b, fe)
        r = ref_extrema(sig, fs, f_range, boundary=b, first_extrema=fe, filter_kwargs=fk, pad=pad)
        if not r['ok']:
            nskip += 1
            outs.append(None)
            continue
        nev += 1
        sgn = {'kind': 'extrema', 'pad': pad, 'n_seconds': 'n_seconds' in (fk or {})}
        try:
            p, t = find_extrema(sig.copy(), fs, f_range, boundary=b, first_extrema=fe,
                                filter_kwargs=None if fk is None else dict(fk), pad=pad)
            p, t = [int(v) for v in p], [int(v) for v in t]
        except Exception as e:      # noqa
            return VIOL({'kind': 'raise', 'exc': type(e).__name__, 'pad': pad,
                         'n_seconds': 'n_seconds' in (fk or {})},
                        'find_extrema raised %s: %s' % (type(e).__name__, str(e)[:120]),
                        expected={'peaks': r['peaks'], 'troughs': r['troughs']},
                        observed={'combo': [fk, pad, b, fe]}, evals=nev)
        if p != r['peaks'] or t != r['troughs']:
            return VIOL(dict(sgn, combo=[fk, pad, b, fe]), 'extrema differ from reference half-wave model',
                        expected={'peaks': r['peaks'], 'troughs': r['troughs']},
                        observed={'peaks': p, 'troughs': t}, evals=nev)
        if fe in ('peak', 'trough'):
            seq = sorted([(v, 'peak') for v in p] + [(v, 'trough') for v in t])
            if len(p) != len(t) or seq[0][1] != fe:
                return VIOL(dict(sgn, combo=[fk, pad, b, fe]), 'first_extrema contract broken',
                            observed={'peaks': p, 'troughs': t}, evals=nev)
        if len(p) >= 2 and len(t) >= 2:
            nt = True
        outs.append((tuple(p), tuple(t)))
    if nev == 0:
        return SKIP('no crossing in either direction', evals=len(cmbs))
    return OK(outcome=(tag, tuple(outs)), nontrivial=nt, evals=nev,
              extra={'combos_skipped_degenerate': nskip} if nskip else None,
              sample={'first_combo': outs[0]} if nt else None)


class _Tiny:
    def __init__(self, tier):
        self.cmbs = combos(tier, TINY_FILTERS, [0, 1, 2])

    def __call__(self, case):
        return check_signal(case, 8, (1, 3), self.cmbs, tuple(case))


class _Words:
    def __init__(self, tier):
        self.cmbs = combos(tier, [None, {'n_cycles': 2}, {'n_seconds': .5}], [0, 5, 12])

    def __call__(self, case):
        w = ''.join(case)
        return check_signal(S.word_signal(w), 64, (6, 14), self.cmbs, w)


def spaces(tier, seed):
    tiny = _Tiny(tier)
    words = _Words(tier)
    out = []
    if tier == 'quick':
        out.append(ProductSpace('tiny{-1,0,1}^10', [[-1, 0, 1]] * 10, tiny,
                                describe='every signal in {-1,0,1}^10, fs=8, band (1,3), 5/9-tap filter',
                                bounds={'combos': len(tiny.cmbs)}))
        out.append(ProductSpace('words-W(6,5)', S.word_dims(S.alphabet(6), 5), words,
                                describe='all 5-letter words over 6 letters, fs=64 band (6,14)',
                                bounds={'combos': len(words.cmbs), 'letters': S.alphabet(6)}))
    else:
        out.append(ProductSpace('tiny{-1,0,1}^12', [[-1, 0, 1]] * 12, tiny, bounds={'combos': len(tiny.cmbs)},
                                describe='every signal in {-1,0,1}^12, fs=8, band (1,3), 5/9-tap filter'))
        out.append(ProductSpace('tiny{-2..2}^8', [[-2, -1, 0, 1, 2]] * 8, tiny, bounds={'combos': len(tiny.cmbs)},
                                describe='every signal in {-2..2}^8'))
        al = S.alphabet(8, seed, extra=2)
        out.append(ProductSpace('words-W(10,5)', S.word_dims(al, 5), words,
                                bounds={'combos': len(words.cmbs), 'letters': al}))
        out.append(ProductSpace('words-W(6,6)', S.word_dims(S.alphabet(6), 6), words,
                                bounds={'combos': len(words.cmbs), 'letters': S.alphabet(6)}))
    return out
