"""C02 - find_extrema reports exactly the raw-signal extremes of the closed narrow-band half-waves.

Spaces: (i) every signal in {-1,0,1}^N (and {-2..2}^8) under a tiny band-pass filter (fs=8, band 1-3 Hz,
5 or 9 taps) so that *all* signals of that length are admissible; (ii) all words over the waveform
alphabet; each x pad x boundary x first_extrema x filter settings.  Oracle: reference half-wave model
(bcmc/ref/extrema.py) using neurodsp's filter as trusted base."""
import numpy as np

from bcmc.explore import ProductSpace, OK, VIOL, SKIP
from bcmc.ref.extrema import ref_extrema, ref_filt_len
from bcmc import spaces as S

LEVEL = 'model_checking'
RULE = ('complete product trees: signal values per sample (tiny filter) or waveform letters per position (words); '
        'each leaf is run for every option combination listed in bounds; non-trivial = at least 2 peaks and 2 '
        'troughs reported; distinct = distinct (signal, extrema lists over all combos)')
ASSUMPTIONS = ['neurodsp.filt.filter_signal is the trusted base for the narrow-band signal',
               'outcome on inputs whose narrow-band signal has no upward or no downward crossing is not defined '
               'by the property (skipped, counted)']

TINY_FILTERS = [{'n_cycles': 1}, {'n_seconds': .5}]


def combos(tier, filters, boundaries):
    out = []
    for fk in filters:
        for pad in (True, False):
            for b in boundaries:
                out.append((fk, pad, b, None))
    if tier == 'quick':
        for fe in ('peak', 'trough'):
            for b in boundaries[:2]:
                out.append((filters[0], True, b, fe))
            out.append((filters[-1], False, boundaries[0], fe))
    else:
        for fk in filters:
            for pad in (True, False):
                for b in boundaries:
                    for fe in ('peak', 'trough'):
                        out.append((fk, pad, b, fe))
    return out


def check_signal(sig, fs, f_range, cmbs, tag, dtype=None):
    from bycycle.cyclepoints import find_extrema
    raw = np.asarray(sig, float) if dtype is None else np.asarray(sig, dtype)
    sig = np.asarray(raw, float)
    outs = []
    nt = False
    nev = 0
    nskip = 0
    cache = {}
    for fk, pad, b, fe in cmbs:
        key = (repr(fk), pad, b, fe)
        if not pad and len(sig) <= ref_filt_len(fs, f_range, fk):
            nskip += 1            # without padding the signal must be longer than the filter (neurodsp rejects it)
            outs.append(None)
            continue
        r = ref_extrema(sig, fs, f_range, boundary=b, first_extrema=fe, filter_kwargs=fk, pad=pad)
        if not r['ok']:
            nskip += 1
            outs.append(None)
            continue
        nev += 1
        sgn = {'kind': 'extrema', 'pad': pad, 'n_seconds': 'n_seconds' in (fk or {})}
        try:
            p, t = find_extrema(raw.copy(), fs, f_range, boundary=b, first_extrema=fe,
                                filter_kwargs=None if fk is None else dict(fk), pad=pad)
            p, t = [int(v) for v in p], [int(v) for v in t]
        except Exception as e:      # noqa
            return VIOL({'kind': 'raise', 'exc': type(e).__name__, 'pad': pad,
                         'n_seconds': 'n_seconds' in (fk or {})},
                        'find_extrema raised %s: %s' % (type(e).__name__, str(e)[:120]),
                        expected={'peaks': r['peaks'], 'troughs': r['troughs']},
                        observed={'combo': [fk, pad, b, fe]}, evals=nev)
        if p != r['peaks'] or t != r['troughs']:
            return VIOL(dict(sgn, combo=[fk, pad, b, fe]), 'extrema differ from reference half-wave model',
                        expected={'peaks': r['peaks'], 'troughs': r['troughs']},
                        observed={'peaks': p, 'troughs': t}, evals=nev)
        if fe in ('peak', 'trough'):
            seq = sorted([(v, 'peak') for v in p] + [(v, 'trough') for v in t])
            if len(p) != len(t) or seq[0][1] != fe:
                return VIOL(dict(sgn, combo=[fk, pad, b, fe]), 'first_extrema contract broken',
                            observed={'peaks': p, 'troughs': t}, evals=nev)
        if len(p) >= 2 and len(t) >= 2:
            nt = True
        outs.append((tuple(p), tuple(t)))
    if nev == 0:
        return SKIP('no crossing in either direction', evals=len(cmbs))
    return OK(outcome=(tag, tuple(outs)), nontrivial=nt, evals=nev,
              extra={'combos_skipped_degenerate': nskip} if nskip else None,
              sample={'first_combo': outs[0]} if nt else None)


class _Tiny:
    def __init__(self, tier):
        self.cmbs = combos(tier, TINY_FILTERS, [0, 1, 2])

    def __call__(self, case):
        return check_signal(case, 8, (1, 3), self.cmbs, tuple(case))


class _Tiny2:
    """fs = 16, band (2, 6): 9-tap filters given as 1 cycle or as 0.5 s - a low band edge other than 1 Hz, so that a length
    given in cycles and the same length given in seconds are different numbers."""
    def __init__(self, tier):
        self.cmbs = [(fk, True, b, fe) for fk in ({'n_cycles': 1}, {'n_seconds': .5}) for b in (0, 1) for fe in (None, 'peak', 'trough')]

    def __call__(self, case):
        return check_signal(case, 16, (2, 6), self.cmbs, ('t2',) + tuple(case))


INT_DTYPES = {'int8': (-128, 0, 127), 'int16': (-32768, 0, 32767), 'uint8': (0, 128, 255)}


def eval_intdtype(case):
    """Integer-typed recordings whose samples sit on the limits of their type (a clipped ADC trace): the extremes of the raw signal are
    the type's own minimum / maximum, which negation, abs or a difference would wrap around."""
    dt, vals = case[0], case[1:]
    lv = INT_DTYPES[dt]
    cmbs = [(fk, True, b, None) for fk in TINY_FILTERS for b in (0, 1)]
    return check_signal([lv[v] for v in vals], 8, (1, 3), cmbs, ('int', dt) + tuple(vals), dtype=dt)


class _Words:
    def __init__(self, tier):
        self.cmbs = combos(tier, [None, {'n_cycles': 2}, {'n_seconds': .5}], [0, 5, 12])

    def __call__(self, case):
        w = ''.join(case)
        return check_signal(S.word_signal(w), 64, (6, 14), self.cmbs, w)


def eval_crop(case):
    """Filter-sensitive noisy signals cropped at both ends (so that edge half-waves open / close in the zero padding)."""
    i, c0, c1, fr = case
    sig = S.sensitive_signal(i)[c0:80 - c1]
    cmbs = [(fk, True, 0, fe) for fk in ({'n_seconds': .5}, {'n_seconds': .375}, {'n_seconds': .3125}, {'n_cycles': 2}, None)
            for fe in (None, 'peak')]
    return check_signal(sig, 64, tuple(fr), cmbs, ('crop', i, c0, c1, tuple(fr)))


def eval_short(case):
    """Signals SHORTER than the filter: only the zero padding makes them analysable (fs=64, 17-tap n_seconds filter)."""
    cmbs = [({'n_seconds': .25}, True, b, None) for b in (0, 1)]
    return check_signal(case, 64, (6, 14), cmbs, ('short',) + tuple(case))


def eval_long(case):
    """Long real-valued recordings, cut at every start offset of one period: whatever block / chunk structure an implementation
    uses internally, every alignment of the half-waves relative to absolute sample indices (2**16, 60 s, ...) is tried."""
    w, k, fe = case
    o = S.resolve((S.LONG_DECL[w],))
    sig = S.word_signal(w)[k:]
    cmbs = [(None, True, 0, fe), ({'n_cycles': 4}, True, 3, fe)] if k % 8 == 0 else [(None, True, 0, fe)]
    return check_signal(sig, o['fs'], o['f_range'], cmbs, ('long', w, k, fe))


def spaces(tier, seed):
    tiny = _Tiny(tier)
    words = _Words(tier)
    out = []
    if True:
        out.append(ProductSpace('tiny{-1,0,1}^10', [[-1, 0, 1]] * 10, tiny,
                                describe='every signal in {-1,0,1}^10, fs=8, band (1,3), 5/9-tap filter',
                                bounds={'combos': len(tiny.cmbs)}))
        from bcmc.explore import ListSpace
        crops = [[i, c0, c1, list(fr)] for i in range(6) for c0 in range(0, 12, 1) for c1 in (0, 1, 2, 3, 5)
                 for fr in ((6, 14), (5, 12), (7, 16))]
        out.append(ListSpace('sensitive-crops', crops, eval_crop,
                             describe='6 filter-sensitive noisy signals x crop at start (0..11) and end x 3 bands x 5 filter lengths x first_extrema'))
        out.append(ProductSpace('short{-2,0,2}^9', [[-2, 0, 2]] * 9, eval_short,
                                describe='every signal in {-2,0,2}^9 with a 17-tap filter (shorter than the filter, padded)'))
        out.append(ProductSpace('int-dtype-limits^8', [list(INT_DTYPES)] + [[0, 1, 2]] * 8, eval_intdtype,
                                describe='every 8-sample signal over {type minimum, middle, type maximum} in int8 / int16 / uint8, tiny filter, pad=True'))
        t2 = _Tiny2(tier)
        out.append(ProductSpace('tiny2{-1,0,1}^9', [[-1, 0, 1]] * 9, t2, bounds={'combos': len(t2.cmbs)},
                                describe='every signal in {-1,0,1}^9, fs=16, band (2,6), pad=True, 9-tap filter given in cycles / in seconds'))
        out.append(ProductSpace('words-W(6,5)', S.word_dims(S.alphabet(6), 5), words,
                                describe='all 5-letter words over 6 letters, fs=64 band (6,14)',
                                bounds={'combos': len(words.cmbs), 'letters': S.alphabet(6)}))
        from bcmc.explore import ListSpace as _LS
        lc = [['@B', k, fe] for k in range(64 if tier == 'quick' else 200) for fe in (None,)] + \
             [[w, k, fe] for w in ('@A', '@C', '@D') for k in (0, 1) for fe in (None, 'peak', 'trough')] + [['@B', 7, 'peak'], ['@B', 8, 'trough']]
        out.append(_LS('long-recordings-x-offsets', lc, eval_long,
                       describe='a 70000-sample recording (1430 cycles, longer than 2**16) cut at each of %d start offsets + three more '
                                'long recordings (fs 500 / 1017.25 / 2000) x first_extrema' % (64 if tier == 'quick' else 200)))
    if tier != 'quick':
        out.append(ProductSpace('tiny{-1,0,1}^11', [[-1, 0, 1]] * 11, tiny, bounds={'combos': len(tiny.cmbs)},
                                describe='every signal in {-1,0,1}^11, fs=8, band (1,3), 5/9-tap filter'))
        crops = [[i, c0, c1, list(fr)] for i in range(6) for c0 in range(0, 16) for c1 in range(0, 9)
                 for fr in ((6, 14), (5, 12), (7, 16), (6, 10))]
        out.append(ListSpace('sensitive-crops-deep', crops, eval_crop))
        out.append(ProductSpace('short{-2,0,2}^10', [[-2, 0, 2]] * 10, eval_short))
        out.append(ProductSpace('tiny2{-1,0,1}^10', [[-1, 0, 1]] * 10, t2, bounds={'combos': len(t2.cmbs)}))
        tp = _Tiny(tier)
        tp.cmbs = [c for c in tp.cmbs if c[1]]          # 7 samples < 9 taps: only with padding
        out.append(ProductSpace('tiny{-2..2}^7', [[-2, -1, 0, 1, 2]] * 7, tp, bounds={'combos': len(tp.cmbs)},
                                describe='every signal in {-2..2}^7 (pad=True combinations)'))
        al = S.alphabet(8, seed, extra=0)
        out.append(ProductSpace('words-W(8,5)', S.word_dims(al, 5), words, bounds={'combos': len(words.cmbs), 'letters': al}))
        ex = S.alphabet(0, seed, extra=2) + S.alphabet(3)
        out.append(ProductSpace('words-Wextra(5,5)', S.word_dims(ex, 5), words, bounds={'combos': len(words.cmbs), 'letters': ex}))
    return out
