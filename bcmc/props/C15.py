"""C15 - purity: no call modifies the caller's signal array, option dictionaries or tables, and a
result depends only on argument values, never on call history.

Explicit-state closure: the state is the deep fingerprint of one set of SHARED argument objects (signal,
option dicts of every kind, tables per method and centring, 2-D / 3-D arrays, option lists) plus
process-global pandas options.  From the pristine state every call of the alphabet is applied; a pure
implementation maps the pristine state to itself, so the reachable state space is ONE state with one
self-loop per call - a fixpoint, which covers histories of every length by induction.  Independently of
the fingerprint every history of length 2 (quick) / 3 over a core (thorough) is executed on shared
objects in a fresh process and each result is compared with the fresh-state result of the same call."""
import copy
import os

import numpy as np
import pandas as pd

from bcmc.explore import ProductSpace, OK, VIOL, SKIP, h64
from bcmc import spaces as S
from bcmc.childproc import run_in_child
from bcmc.ref.table import fingerprint

LEVEL = 'model_checking'
RULE = ('history tree over the call alphabet (every node = a history, executed in a forked child of a worker that has never '
        'run any API call); after every step the fingerprint of all shared objects must equal the pristine one and the result '
        'must equal the fresh-state result; non-trivial = history of length >= 2; distinct = distinct histories')
ASSUMPTIONS = ['split_samples_df, flatten_dfs, detect_bursts_*, check_min_burst_cycles, rename_extrema_df document in-place '
               'behaviour and are not in the property\'s list', 'global RNG consumption by plot_feature_categorical is not a '
               'caller object (RNG re-seeded before every call)', 'figures are closed after every call']

FS, FR = 64, (6, 14)


def pristine():
    from bycycle.features import compute_features, compute_shape_features
    from bycycle.cyclepoints import find_extrema, find_zerox
    sig = S.word_signal('aadaaazzaaaadaan')
    thr = dict(S.T0, amp_fraction_threshold=.1)
    thra = {'burst_fraction_threshold': .5}
    thram = {'burst_fraction_threshold': .5, 'min_n_cycles': 2}
    bk = {'amp_threshes': (.5, 1.)}
    bkm = {'amp_threshes': (.5, 1.), 'min_n_cycles': 1}
    bkfull = {'amp_threshes': (.5, 1.), 'fs': FS, 'f_range': FR}
    fek = {'boundary': 1, 'filter_kwargs': {'n_cycles': 3}}
    sigs2 = np.array([S.word_signal('aadaaazz'), S.word_signal('bbnbbdab'), S.word_signal('eeaaddaa')])
    sigs3 = np.array([[S.word_signal('aadaaazz'), S.word_signal('bbnbbdab')], [S.word_signal('eeaaddaa'), S.word_signal('nnaabbaa')]])
    cfk = {'threshold_kwargs': thr, 'find_extrema_kwargs': fek, 'center_extrema': 'trough'}
    cfka = {'burst_method': 'amp', 'threshold_kwargs': thram, 'burst_kwargs': bkm}
    cfkl = [{'threshold_kwargs': thr}, {'threshold_kwargs': thr, 'center_extrema': 'trough'},
            {'burst_method': 'amp', 'threshold_kwargs': thra, 'burst_kwargs': bk}]
    cfkl2 = [[{'threshold_kwargs': thr}, {'threshold_kwargs': thr, 'center_extrema': 'trough'}],
             [{'burst_method': 'amp', 'threshold_kwargs': thra, 'burst_kwargs': bk}, {'threshold_kwargs': dict(S.T1)}]]
    dfc = compute_features(sig, FS, FR, threshold_kwargs=copy.deepcopy(thr))
    dft = compute_features(sig, FS, FR, center_extrema='trough', threshold_kwargs=copy.deepcopy(thr))
    dfa = compute_features(sig, FS, FR, burst_method='amp', threshold_kwargs=copy.deepcopy(thra), burst_kwargs=copy.deepcopy(bk))
    dfs = compute_shape_features(sig, FS, FR)
    strict = dict(thr, monotonicity_threshold=1., amp_consistency_threshold=1.)
    dfnb = compute_features(sig, FS, FR, threshold_kwargs=copy.deepcopy(strict))      # a table without any burst
    bk8 = {'amp_threshes': (.5, 1.), 'min_n_cycles': 8}
    dfs_off = dfs.iloc[1:].copy()                   # a slice: row labels 1..n-1
    dfc_off = dfc.iloc[1:-1].copy()
    fek_empty = {'filter_kwargs': {}, 'boundary': 2}
    fek_other = {'filter_kwargs': {'print_transitions': False}}
    p, t = find_extrema(sig, FS, FR)
    r, d = find_zerox(sig, p, t)
    sigz = S.word_signal('aaazzzzaaa')            # a gated recording: cycles lying entirely inside an exact-zero stretch
    dfz = compute_shape_features(sigz, FS, FR)
    from bycycle import Bycycle
    bm = Bycycle(thresholds=dict(thr))          # one analysis object re-used by the caller (its own tables change, its SETTINGS must not)
    sigL = S.long_signal('@E')[:1500]             # two recordings of more than 1000 samples that differ only in the interior
    sigL2 = sigL.copy()
    sigL2[600:700] += 3.
    bufA = S.word_signal('aadaaazzaaaadaan')
    bufB = 2.0 * S.word_signal('bbnbbdabbbzbbeaa') + 1.0
    buf = np.zeros(len(bufA))
    signan = S.word_signal('aadaaazzaaaadaan')    # a recording with missing samples (NaN): whatever the outcome, the caller's array keeps them
    signan[[40, 41, 77]] = np.nan
    siginf = S.word_signal('aadaaazzaaaadaan')    # ... and one with saturated samples (+/-inf)
    siginf[[33]] = np.inf
    siginf[[90]] = -np.inf
    return dict(signan=signan, siginf=siginf, bm=bm, sigL=sigL, sigL2=sigL2, sigz=sigz, dfz=dfz, buf=buf, bufA=bufA, bufB=bufB, dfnb=dfnb, bk8=bk8, dfs_off=dfs_off, dfc_off=dfc_off, fek_empty=fek_empty, fek_other=fek_other, sig=sig, thr=thr, thra=thra, thram=thram, bk=bk, bkm=bkm, bkfull=bkfull, fek=fek, sigs2=sigs2, sigs3=sigs3,
                cfk=cfk, cfka=cfka, cfkl=cfkl, cfkl2=cfkl2, dfc=dfc, dft=dft, dfa=dfa, dfs=dfs, p=p, t=t, r=r, d=d)


def _expect_raise(f):
    try:
        f()
    except ValueError as e:
        return 'ValueError'
    return 'returned'


def _outcome(f):
    """Result of a call whose outcome on such input the property does not prescribe (a table or an exception): only purity is observed."""
    try:
        return f()
    except Exception as e:      # noqa
        return type(e).__name__


def _fresh_str(v):
    """An equal string that is a different (non-interned) object, as read from a config file or received by a worker process."""
    return bytes(v, 'ascii').decode('ascii')


def _rename_chain(s, compute_features, rename_extrema_df, compute_amp_consistency, recompute_edges, rebuild):
    t = rename_extrema_df('trough', compute_features(-s['sig'], FS, FR, center_extrema='peak', threshold_kwargs=s['thr']))
    if rebuild:
        t = pd.DataFrame({c: t[c].to_numpy().copy() for c in t.columns})
    return [np.asarray(compute_amp_consistency(t)), recompute_edges(t, s['thr'])]


def _twin(obj):
    """Equal-valued reconstruction of an option structure: every dict, tuple and string is a new object."""
    if isinstance(obj, dict):
        return {_fresh_str(k): _twin(v) for k, v in obj.items()}
    if isinstance(obj, (list, tuple)):
        return type(obj)(_twin(v) for v in obj)
    if isinstance(obj, str):
        return _fresh_str(obj)
    return copy.deepcopy(obj)


TWINS = {'rename_cons_tw': 'rename_cons', 'cf_trough_tw': 'cf_trough', 'cf_amp_tw': 'cf_amp', 'shape_t_tw': 'shape_t', 'h_rename_tw': 'h_rename', '2d_dict_tw': '2d_dict',
         '2d_none_tw': '2d_none'}


def poison(v):
    """Fill numpy's small-block cache with blocks holding the value v, so that a result that reads uninitialised memory
    (np.empty not fully written) depends on v - the harness varies v with the position of the call in the history."""
    a = [np.full(n, v) for n in range(1, 129) for _ in range(7)]
    del a


def alphabet():
    from bycycle.features import (compute_features, compute_shape_features, compute_cyclepoints, compute_burst_features)
    from bycycle.features.burst import (compute_amp_fraction, compute_amp_consistency, compute_period_consistency,
                                        compute_monotonicity, compute_burst_fraction)
    from bycycle.cyclepoints import find_extrema, find_zerox, extrema_interpolated_phase
    from bycycle.group import compute_features_2d, compute_features_3d
    from bycycle.burst import recompute_edges
    from bycycle.utils import limit_df, epoch_df, drop_samples_df, rename_extrema_df, split_samples_df, flatten_dfs
    from bycycle.burst import detect_bursts_cycles, detect_bursts_amp
    from bycycle.burst.utils import check_min_burst_cycles
    from bycycle.plts import (plot_burst_detect_summary, plot_burst_detect_param, plot_cyclepoints_df,
                              plot_cyclepoints_array, plot_feature_hist, plot_feature_categorical)
    A = {
        # tables with cycles inside an exact-zero stretch (all voltage ratios 0/0)
        'ampcons_z': lambda s: compute_amp_consistency(s['dfz']),
        'percons_z': lambda s: compute_period_consistency(s['dfz']),
        'burstfeat_z': lambda s: compute_burst_features(s['dfz'], s['sigz']),
        'cf_z': lambda s: compute_features(s['sigz'], FS, FR, threshold_kwargs=s['thr']),
        # near-identical inputs / settings in one process: anything keyed on an abbreviated or truncated description collides
        'amp_longA': lambda s: compute_features(s['sigL'], 500, (8, 12), burst_method='amp', threshold_kwargs=s['thra'], burst_kwargs=s['bk']),
        'amp_longB': lambda s: compute_features(s['sigL2'], 500, (8, 12), burst_method='amp', threshold_kwargs=s['thra'], burst_kwargs=s['bk']),
        'cf_longA': lambda s: compute_features(s['sigL'], 500, (8, 12), threshold_kwargs=s['thr']),
        'cf_longB': lambda s: compute_features(s['sigL2'], 500, (8, 12), threshold_kwargs=s['thr']),
        'cf_band6.5': lambda s: compute_features(s['sig'], FS, (6.5, 14), threshold_kwargs=s['thr']),
        'cf_band6.25': lambda s: compute_features(s['sig'], FS, (6.25, 14.75), threshold_kwargs=s['thr']),
        'cf_fs64.5': lambda s: compute_features(s['sig'], 64.5, FR, threshold_kwargs=s['thr']),
        'shape_nc3.5': lambda s: compute_shape_features(s['sig'], FS, FR, n_cycles=3.5),
        # a re-used analysis object: fitting again after an edge recomputation gives the table of a fresh fit
        'obj_fit': lambda s: (s['bm'].fit(s['sig'], FS, FR), s['bm'].df_features.copy())[1],
        'obj_fit_edges': lambda s: (s['bm'].fit(s['sig'], FS, FR), s['bm'].recompute_edges(.05), s['bm'].df_features.copy())[2],
        'obj_fit_other': lambda s: (s['bm'].fit(s['bufB'], FS, FR), s['bm'].df_features.copy())[1],
        # a table that went through the documented rename work-flow, and its twin rebuilt from the plain column values (same columns,
        # values, dtypes, labels - no hidden metadata): equal tables give equal results
        'rename_cons': lambda s: _rename_chain(s, compute_features, rename_extrema_df, compute_amp_consistency, recompute_edges, False),
        'rename_cons_tw': lambda s: _rename_chain(s, compute_features, rename_extrema_df, compute_amp_consistency, recompute_edges, True),
        # TWINS: the same call with equal-valued but distinct argument objects (strings built at run time, options after a pickle
        # round trip, the array copied): the result depends on argument VALUES only
        'cf_trough_tw': lambda s: compute_features(s['sig'].copy(), int(str(FS)), tuple(float(v) for v in FR), center_extrema=_fresh_str('trough'),
                                                   threshold_kwargs=_twin(s['thr'])),
        'cf_amp_tw': lambda s: compute_features(s['sig'].copy(), FS, FR, burst_method=_fresh_str('amp'), threshold_kwargs=_twin(s['thra']),
                                                burst_kwargs=_twin(s['bk'])),
        'shape_t_tw': lambda s: compute_shape_features(s['sig'].copy(), FS, FR, center_extrema=_fresh_str('trough')),
        'h_rename_tw': lambda s: rename_extrema_df(_fresh_str('trough'), s['dfc'].copy()),
        '2d_dict_tw': lambda s: compute_features_2d(s['sigs2'].copy(), FS, FR, _twin(s['cfk']), axis=0, n_jobs=2),
        '2d_none_tw': lambda s: compute_features_2d(s['sigs2'].copy(), FS, FR, _twin(s['cfk']), axis=None),
        'cf_cycles': lambda s: compute_features(s['sig'], FS, FR, threshold_kwargs=s['thr'], find_extrema_kwargs=s['fek']),
        'cf_trough': lambda s: compute_features(s['sig'], FS, FR, center_extrema='trough', threshold_kwargs=s['thr']),
        'cf_amp': lambda s: compute_features(s['sig'], FS, FR, burst_method='amp', threshold_kwargs=s['thra'], burst_kwargs=s['bk']),
        'cf_amp_m': lambda s: compute_features(s['sig'], FS, FR, burst_method='amp', threshold_kwargs=s['thram'], burst_kwargs=s['bkm']),
        'cf_amp_t': lambda s: compute_features(s['sig'], FS, FR, burst_method='amp', threshold_kwargs=s['thram'], burst_kwargs=s['bk']),
        'cf_nosamp': lambda s: compute_features(s['sig'], FS, FR, threshold_kwargs=s['thr'], return_samples=False),
        # the caller re-uses one pre-allocated array (overwritten in place by the caller between calls)
        'cf_buf_A': lambda s: (s['buf'].__setitem__(slice(None), s['bufA']), compute_features(s['buf'], FS, FR, threshold_kwargs=s['thr']))[1],
        'cf_buf_B': lambda s: (s['buf'].__setitem__(slice(None), s['bufB']), compute_features(s['buf'], FS, FR, threshold_kwargs=s['thr']))[1],
        'amp_buf_A': lambda s: (s['buf'].__setitem__(slice(None), s['bufA']), compute_features(s['buf'], FS, FR, burst_method='amp', threshold_kwargs=s['thra'], burst_kwargs=s['bk']))[1],
        'amp_buf_B': lambda s: (s['buf'].__setitem__(slice(None), s['bufB']), compute_features(s['buf'], FS, FR, burst_method='amp', threshold_kwargs=s['thra'], burst_kwargs=s['bk']))[1],
        'shape_buf_B': lambda s: (s['buf'].__setitem__(slice(None), s['bufB']), compute_shape_features(s['buf'], FS, FR))[1],
        # default-argument paths: no thresholds / no options given
        'cf_nan': lambda s: _outcome(lambda: compute_features(s['signan'], FS, FR, threshold_kwargs=s['thr'])),
        'cyclepoints_nan': lambda s: _outcome(lambda: compute_cyclepoints(s['signan'], FS, FR)),
        'shape_inf_t': lambda s: _outcome(lambda: compute_shape_features(s['siginf'], FS, FR, center_extrema='trough')),
        'cf_default': lambda s: compute_features(s['sig'], FS, FR),
        'cf_default_t': lambda s: compute_features(s['sig'], FS, FR, center_extrema='trough'),
        'cf_amp_default': lambda s: compute_features(s['sig'], FS, FR, burst_method='amp'),
        'cf_amp_nothr_m8': lambda s: compute_features(s['sig'], FS, FR, burst_method='amp', burst_kwargs=s['bk8']),
        # helpers documented to work in place, applied to COPIES: no module-level state may leak into later calls
        'h_rename_nosamp': lambda s: rename_extrema_df('trough', drop_samples_df(s['dfc']).copy(), return_samples=False),
        'h_rename': lambda s: rename_extrema_df('trough', s['dfc'].copy()),
        'h_split': lambda s: split_samples_df(s['dft'].copy()),
        'h_flatten': lambda s: flatten_dfs([s['dfc'].copy(), s['dft'].copy()], ['x', 'y']),
        'h_detect_c': lambda s: detect_bursts_cycles(s['dfc'].copy(), **s['thr']),
        'h_detect_a': lambda s: detect_bursts_amp(s['dfa'].copy(), **s['thra']),
        'h_minrun': lambda s: check_min_burst_cycles(np.array([True, True, False, True]), min_n_cycles=2),
        # tables whose row labels are not 0..n-1
        'burstfeat_c_off': lambda s: compute_burst_features(s['dfs_off'], s['sig']),
        'edges_off': lambda s: recompute_edges(s['dfc_off'], s['thr']),
        'limit_off': lambda s: limit_df(s['dfc_off'], FS, start=.25, stop=1.5),
        'epoch_off': lambda s: epoch_df(s['dfc_off'], len(s['sig']), 32),
        'mono_off': lambda s: compute_monotonicity(s['dfs_off'], s['sig']),
        # nested option dicts that set neither n_cycles nor n_seconds
        'cf_fek_empty': lambda s: compute_features(s['sig'], FS, FR, threshold_kwargs=s['thr'], find_extrema_kwargs=s['fek_empty']),
        'shape_fek_other': lambda s: compute_shape_features(s['sig'], FS, FR, find_extrema_kwargs=s['fek_other']),
        'extrema_fk_empty': lambda s: find_extrema(s['sig'], FS, FR, filter_kwargs=s['fek_empty']['filter_kwargs']),
        # calls that FAIL (band-amplitude filter longer than the signal: 3 cycles at 1 Hz = 193 samples > 128)
        'cf_fail_t': lambda s: _expect_raise(lambda: compute_features(s['sig'], FS, (1, 3), center_extrema='trough', threshold_kwargs=s['thr'])),
        'cf_fail_amp': lambda s: _expect_raise(lambda: compute_features(s['sig'], FS, (1, 3), burst_method='amp', threshold_kwargs=s['thra'], burst_kwargs=s['bk'])),
        'shape_fail_t': lambda s: _expect_raise(lambda: compute_shape_features(s['sig'], FS, (1, 3), center_extrema='trough', find_extrema_kwargs=s['fek'])),
        'edges_noburst': lambda s: recompute_edges(s['dfnb'], s['thr']),
        'shape': lambda s: compute_shape_features(s['sig'], FS, FR, find_extrema_kwargs=s['fek']),
        'shape_t': lambda s: compute_shape_features(s['sig'], FS, FR, center_extrema='trough'),
        'cyclepoints': lambda s: compute_cyclepoints(s['sig'], FS, FR, **s['fek']),
        'burstfeat_c': lambda s: compute_burst_features(s['dfs'], s['sig']),
        'burstfeat_a': lambda s: compute_burst_features(s['dfs'], s['sig'], burst_method='amp', burst_kwargs=s['bkfull']),
        'ampfrac': lambda s: compute_amp_fraction(s['dfs']),
        'ampcons': lambda s: compute_amp_consistency(s['dfs']),
        'percons': lambda s: compute_period_consistency(s['dfs']),
        'mono': lambda s: compute_monotonicity(s['dfs'], s['sig']),
        'bfrac': lambda s: compute_burst_fraction(s['dfs'], s['sig'], FS, FR, amp_threshes=(.5, 1.)),
        'extrema': lambda s: find_extrema(s['sig'], FS, FR, filter_kwargs=s['fek']['filter_kwargs']),
        'zerox': lambda s: find_zerox(s['sig'], s['p'], s['t']),
        'phase': lambda s: extrema_interpolated_phase(s['sig'], s['p'], s['t'], s['r'], s['d']),
        '2d_dict': lambda s: compute_features_2d(s['sigs2'], FS, FR, s['cfk'], axis=0, n_jobs=2),
        '2d_amp': lambda s: compute_features_2d(s['sigs2'], FS, FR, s['cfka'], axis=0, n_jobs=1),
        '2d_list': lambda s: compute_features_2d(s['sigs2'], FS, FR, s['cfkl'], axis=0, n_jobs=2),
        '2d_none': lambda s: compute_features_2d(s['sigs2'], FS, FR, s['cfk'], axis=None),
        '2d_none_list': lambda s: compute_features_2d(s['sigs2'], FS, FR, [s['cfk'], s['cfk'], s['cfk']], axis=None),
        '3d': lambda s: compute_features_3d(s['sigs3'], FS, FR, s['cfk'], axis=0, n_jobs=2),
        '3d_1': lambda s: compute_features_3d(s['sigs3'], FS, FR, s['cfkl'][:2], axis=1, n_jobs=1),
        '3d01': lambda s: compute_features_3d(s['sigs3'], FS, FR, s['cfkl2'], axis=(0, 1), n_jobs=2),
        'edges': lambda s: recompute_edges(s['dfc'], s['thr']),
        'edges_t': lambda s: recompute_edges(s['dft'], s['thr']),
        'limit': lambda s: limit_df(s['dfc'], FS, start=.25, stop=1.5),
        'limit_t': lambda s: limit_df(s['dft'], FS, start=.25, stop=None, reset_indices=True),
        'epoch': lambda s: epoch_df(s['dfc'], len(s['sig']), 32),
        'epoch_t': lambda s: epoch_df(s['dft'], len(s['sig']), 32),
        'drop': lambda s: drop_samples_df(s['dfc']),
        'plt_summary': lambda s: plot_burst_detect_summary(s['dfc'], s['sig'], FS, s['thr'], xlim=(.25, 1.5)),
        'plt_summary_t': lambda s: plot_burst_detect_summary(s['dft'], s['sig'], FS, s['thr'], plot_only_result=True),
        'plt_summary_a': lambda s: plot_burst_detect_summary(s['dfa'], s['sig'], FS, s['thram'], interp=False),
        'plt_param': lambda s: plot_burst_detect_param(s['dfc'], s['sig'], FS, 'monotonicity', .6, xlim=(.25, 1.5)),
        'plt_cpdf': lambda s: plot_cyclepoints_df(s['dft'], s['sig'], FS, xlim=(.25, 1.5)),
        'plt_cparr': lambda s: plot_cyclepoints_array(s['sig'], FS, peaks=s['p'], troughs=s['t'], rises=s['r'], decays=s['d']),
        'plt_hist': lambda s: plot_feature_hist(s['dfc'], 'volt_amp'),
        'plt_cat': lambda s: plot_feature_categorical(s['dfc'], 'volt_amp', group_by='is_burst'),
    }
    return A


NAMES = ['cf_nan', 'cyclepoints_nan', 'shape_inf_t', 'obj_fit', 'obj_fit_edges', 'obj_fit_other', 'rename_cons', 'rename_cons_tw', 'amp_longA', 'amp_longB', 'cf_longA', 'cf_longB', 'cf_band6.5', 'cf_band6.25', 'cf_fs64.5', 'shape_nc3.5', 'ampcons_z', 'percons_z', 'burstfeat_z', 'cf_z', 'cf_trough_tw', 'cf_amp_tw', 'shape_t_tw', 'h_rename_tw', '2d_dict_tw', '2d_none_tw', 'h_rename_nosamp', 'h_rename', 'h_split', 'h_flatten', 'h_detect_c', 'h_detect_a', 'h_minrun', 'burstfeat_c_off', 'edges_off',
         'limit_off', 'epoch_off', 'mono_off', 'cf_fek_empty', 'shape_fek_other', 'extrema_fk_empty', 'cf_fail_t', 'cf_fail_amp', 'shape_fail_t', 'amp_buf_A', 'amp_buf_B', 'cf_default', 'cf_default_t', 'cf_amp_default', 'cf_amp_nothr_m8', 'edges_noburst', 'cf_buf_A', 'cf_buf_B', 'shape_buf_B', 'cf_cycles', 'cf_trough', 'cf_amp', 'cf_amp_m', 'cf_amp_t', 'cf_nosamp', 'shape', 'shape_t', 'cyclepoints',
         'burstfeat_c', 'burstfeat_a', 'ampfrac', 'ampcons', 'percons', 'mono', 'bfrac', 'extrema', 'zerox', 'phase',
         '2d_dict', '2d_amp', '2d_list', '2d_none', '2d_none_list', '3d', '3d_1', '3d01', 'edges', 'edges_t', 'limit',
         'limit_t', 'epoch', 'epoch_t', 'drop', 'plt_summary', 'plt_summary_t', 'plt_summary_a', 'plt_param', 'plt_cpdf',
         'plt_cparr', 'plt_hist', 'plt_cat']
CORE = ['amp_longB', 'cf_band6.5', 'ampcons_z', 'cf_trough_tw', 'h_rename_nosamp', 'burstfeat_c_off', 'cf_fek_empty', 'cf_fail_t', 'cf_default', 'cf_amp_nothr_m8', 'edges_noburst', 'cf_buf_A', 'cf_buf_B',
        'cf_amp_m', '2d_none_list', 'limit_t']
REF = {}          # call name -> fingerprint hash of its fresh-state result (filled before the workers are forked)


def state_fp(s):
    # 'buf' is the caller's own scratch array (the harness overwrites it between calls): not part of the state
    return h64(repr((fingerprint({k: v for k, v in s.items() if k not in ('buf', 'bm')}), repr(pd.options.mode.chained_assignment))))


def result_fp(r):
    return h64(repr(fingerprint(r)))


_BLOB = [None]        # pickled pristine argument set, built ONCE in a dedicated child process (see spaces())


def _make_blob():
    import pickle
    return pickle.dumps(pristine())


def run_history(hist):
    """Executed in a fresh child: returns a list of per-step dicts."""
    import warnings
    warnings.simplefilter('ignore')
    import matplotlib
    matplotlib.use('Agg')
    import matplotlib.pyplot as plt
    A = alphabet()
    # the shared argument objects were built in ANOTHER process: this one has not executed a single library call before the history
    # starts (module-level caches, registries and defaults are in their import-time state)
    if _BLOB[0] is not None:
        import pickle
        s = pickle.loads(_BLOB[0])
    else:
        s = pristine()
    f0 = state_fp(s)
    base = {k: fingerprint(v) for k, v in s.items() if k not in ('buf', 'bm')}
    steps = []
    for step, name in enumerate(hist):
        np.random.seed(0)
        poison(1.25 * (step + 1))
        try:
            r = A[name](s)
            rf, err = result_fp(r), None
        except Exception as e:      # noqa
            rf, err = None, '%s: %s' % (type(e).__name__, str(e)[:200])
        plt.close('all')
        f1 = state_fp(s)
        changed = [k for k in base if fingerprint(s[k]) != base[k]] if f1 != f0 else []
        steps.append({'call': name, 'result': rf, 'error': err, 'state_changed': changed})
        if changed or err:
            break
    return steps


def evaluate(case):
    hist = list(case)
    status, steps = run_in_child(run_history, (hist,), timeout=240)
    if status != 'ok':
        if status == 'exc':
            return {'v': 'error', 'msg': steps, 'evals': 1, 'traces': 0}
        return VIOL({'kind': 'hang' if status == 'timeout' else 'died', 'history': hist}, 'history %s: child %s' % (hist, status))
    for i, st in enumerate(steps):
        if st['error']:
            return VIOL({'kind': 'raise', 'call': st['call'], 'first_call': i == 0},
                        'call %s raised %s after history %s' % (st['call'], st['error'], hist[:i]), observed=hist)
        if st['state_changed']:
            return VIOL({'kind': 'mutation', 'call': st['call'], 'objects': sorted(st['state_changed'])},
                        'call %s modified the caller\'s %s (history %s)' % (st['call'], sorted(st['state_changed']), hist[:i + 1]),
                        observed=hist)
        if REF.get(st['call']) is not None and st['result'] != REF[st['call']]:
            if st['call'] in TWINS and i == 0:
                return VIOL({'kind': 'object-identity-dependence', 'call': st['call']},
                            'call %s (equal-valued but distinct argument objects) does not reproduce the fresh-state result of %s'
                            % (st['call'], TWINS[st['call']]), observed=hist)
            return VIOL({'kind': 'history-dependence', 'call': st['call'], 'after': hist[:i]},
                        'result of %s after %s differs from its fresh-state result' % (st['call'], hist[:i]), observed=hist)
    return OK(outcome=tuple(hist), nontrivial=len(hist) >= 2, evals=len(hist))


def spaces(tier, seed):
    # fresh-state reference results, each computed in its own fresh child of this (never contaminated) process
    if _BLOB[0] is None:
        status, blob = run_in_child(_make_blob, (), timeout=240)
        if status != 'ok':
            raise RuntimeError('could not build the pristine argument set: %s' % (blob,))
        _BLOB[0] = blob
    if not REF:
        for name in NAMES:
            status, steps = run_in_child(run_history, ([name],), timeout=240)
            REF[name] = steps[0]['result'] if status == 'ok' and steps and not steps[0]['error'] else None
        # determinism of the reference itself: a second fresh process must agree
        for name in NAMES[:8]:
            status, steps = run_in_child(run_history, ([name],), timeout=240)
            if status == 'ok' and steps and steps[0]['result'] != REF[name] and REF[name] is not None:
                raise RuntimeError('fresh-state result of %s is not reproducible' % name)
        for tw, orig in TWINS.items():
            REF[tw] = REF[orig]          # a twin must reproduce the result of the call it mirrors
    out = [ProductSpace('histories<=2', [NAMES] * 2, evaluate, min_len=1, split_depth=2,
                        describe='every history of 1 or 2 calls over the %d-call alphabet on shared argument objects' % len(NAMES),
                        bounds={'alphabet': NAMES})]
    if tier != 'quick':
        out.append(ProductSpace('core-histories-3', [CORE] * 3, evaluate, split_depth=2,
                                describe='every history of 3 calls over the %d-call core' % len(CORE), bounds={'core': CORE}))
    return out
