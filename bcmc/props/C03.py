"""C03 - find_zerox returns, per flank, the sample just before the half-height crossing (temporal
median of several crossings, temporal centre for inverted / all-zero flanks).

Spaces: (i) every signal in {-1,0,1,2}^n for all n in 2..N x every alternating peak/trough index
sequence (every subset of >= 2 positions, both starting kinds); (ii) extrema sequences produced by the
real find_extrema on every word (all first/last kind patterns)."""
import itertools

import numpy as np

from bcmc.explore import ProductSpace, OK, VIOL, SKIP
from bcmc.ref.zerox import ref_zerox, flank_info
from bcmc.ref.extrema import ref_extrema
from bcmc import spaces as S

LEVEL = 'model_checking'
RULE = ('product tree over sample values, every prefix of length >= 2 is a signal; each signal is run with every '
        'alternating index sequence; non-trivial = some flank with >= 2 crossings or a fallback; distinct = distinct '
        '(signal, all midpoint lists)')
ASSUMPTIONS = ['when the half-height level is never crossed in the flank direction (equal end voltages) the '
               'temporal centre is accepted (the property leaves it open; it is what the dummy-crossing rule yields)']

_SUBSETS = {}


def subsets(n):
    if n not in _SUBSETS:
        _SUBSETS[n] = [c for k in range(2, n + 1) for c in itertools.combinations(range(n), k)]
    return _SUBSETS[n]


def compare(sig, peaks, troughs, sgn):
    from bycycle.cyclepoints import find_zerox
    rr, rd = ref_zerox(sig, peaks, troughs)
    try:
        r, d = find_zerox(sig, np.array(peaks, dtype=int), np.array(troughs, dtype=int))
        r, d = [int(v) for v in r], [int(v) for v in d]
    except Exception as e:      # noqa
        return None, VIOL(dict(sgn, kind='raise', exc=type(e).__name__), 'find_zerox raised %s: %s' % (type(e).__name__, e),
                          expected={'rises': rr, 'decays': rd}, observed={'peaks': list(peaks), 'troughs': list(troughs)})
    if r != rr or d != rd:
        return None, VIOL(dict(sgn, kind='midpoints'), 'midpoints differ from half-height reference',
                          expected={'rises': rr, 'decays': rd},
                          observed={'rises': r, 'decays': d, 'peaks': list(peaks), 'troughs': list(troughs)})
    return (tuple(r), tuple(d)), None


def nontrivial(sig, peaks, troughs):
    seq = sorted([(p, 'P') for p in peaks] + [(t, 'T') for t in troughs])
    for (i, a), (j, b) in zip(seq[:-1], seq[1:]):
        n, fb = flank_info(sig, i, j, 'rise' if a == 'T' else 'decay')
        if n >= 2 or fb:
            return True
    return False


def eval_small(case):
    sig = np.array(case, dtype=float)
    n = len(sig)
    outs, nt, nev = [], False, 0
    for c in subsets(n):
        for first in ('P', 'T'):
            peaks = [p for i, p in enumerate(c) if (i % 2 == 0) == (first == 'P')]
            troughs = [p for i, p in enumerate(c) if (i % 2 == 0) != (first == 'P')]
            nev += 1
            o, v = compare(sig, peaks, troughs, {'sig': list(case), 'pos': list(c), 'first': first})
            if v is not None:
                v['evals'] = nev
                return v
            outs.append(o)
            nt = nt or nontrivial(sig, peaks, troughs)
    return OK(outcome=(tuple(case), tuple(outs)), nontrivial=nt, evals=nev,
              sample={'all_positions_first_P': outs[-2]} if nt else None)


def eval_word(case):
    from bycycle.cyclepoints import find_extrema
    w = ''.join(case)
    sig = S.word_signal(w)
    outs, nt, nev = [], False, 0
    for fe in (None, 'peak', 'trough'):
        for b in (0, 5):
            r = ref_extrema(sig, 64, (6, 14), boundary=b, first_extrema=fe)
            if not r['ok'] or len(r['peaks']) + len(r['troughs']) < 2 or not r['peaks'] or not r['troughs']:
                continue
            p, t = find_extrema(sig, 64, (6, 14), boundary=b, first_extrema=fe)
            nev += 1
            o, v = compare(sig, [int(x) for x in p], [int(x) for x in t], {'word': w, 'first_extrema': fe, 'boundary': b})
            if v is not None:
                return v
            outs.append(o)
            nt = nt or nontrivial(sig, list(p), list(t))
    if not nev:
        return SKIP('no extrema')
    return OK(outcome=(w, tuple(outs)), nontrivial=nt, evals=nev)


def eval_flank(case):
    """One flank of L samples with its half-height crossing at EVERY position m (a step from low to high after sample m), rises
    and decays, plus three crossings at (m, m+2, L-2): flank lengths far beyond the exhaustive small signals (100-200 samples
    per flank at realistic sampling rates)."""
    L, = case
    outs, nev = [], 0
    for m in range(0, L - 1):
        for kind in ('rise', 'decay'):
            x = np.array([-1.] * (m + 1) + [1.] * (L - 1 - m))
            if kind == 'decay':
                x = -x
            peaks, troughs = ([L - 1], [0]) if kind == 'rise' else ([0], [L - 1])
            nev += 1
            o, v = compare(x, peaks, troughs, {'flank_len': L, 'crossing': m, 'flank': kind, 'crossings': 1})
            if v is not None:
                v['evals'] = nev
                return v
            outs.append(o)
            if m + 3 < L - 2:
                y = x.copy()
                s_ = 1. if kind == 'rise' else -1.
                y[m + 1] = s_ * 1.
                y[m + 2] = s_ * -1.
                y[m + 3:L - 2] = s_ * 1.
                y[L - 2] = s_ * -1.      # crossings at m, m+2 and L-2 (median m+2)
                y[L - 1] = s_ * 1.
                nev += 1
                o, v = compare(y, peaks, troughs, {'flank_len': L, 'crossing': m, 'flank': kind, 'crossings': 3})
                if v is not None:
                    v['evals'] = nev
                    return v
                outs.append(o)
    return OK(outcome=(L, hash(tuple(map(repr, outs)))), nontrivial=L >= 4, evals=nev)


def eval_long(case):
    from bycycle.cyclepoints import find_extrema
    w, fe, b = case
    o_ = S.resolve((S.LONG_DECL[w],))
    sig = S.word_signal(w)
    p, t = find_extrema(sig, o_['fs'], o_['f_range'], boundary=b, first_extrema=fe)
    o, v = compare(sig, [int(x) for x in p], [int(x) for x in t], {'word': w, 'first_extrema': fe, 'boundary': b})
    if v is not None:
        return v
    return OK(outcome=(w, fe, b, hash(repr(o))), nontrivial=True, evals=1)


def spaces(tier, seed):
    N = 6 if tier == 'quick' else 7
    out = [ProductSpace('small{-1,0,1,2}^<=%d' % N, [[-1, 0, 1, 2]] * N, eval_small, min_len=2,
                        describe='every signal of length 2..%d over {-1,0,1,2} x every alternating index sequence' % N,
                        bounds={'values': [-1, 0, 1, 2], 'max_len': N, 'sequences_at_max_len': 2 * len(subsets(N))})]
    if True:
        out.append(ProductSpace('small{0,1,2}^7', [[0, 1, 2]] * 7, eval_small, min_len=7,
                                describe='every signal of length 7 over {0,1,2} x every alternating index sequence '
                                         '(three unevenly spaced crossings need 7 samples)'))
        al = S.alphabet(8)
        out.append(ProductSpace('words-W(8,5)', S.word_dims(al, 5), eval_word, bounds={'letters': al},
                                describe='extrema from find_extrema on all 5-letter words, first_extrema x boundary'))
        Lmax = 130 if tier == 'quick' else 260
        out.append(ProductSpace('single-flank<=%d' % Lmax, [list(range(2, Lmax + 1))], eval_flank,
                                describe='every flank length 2..%d x every crossing position x rise / decay x 1 or 3 crossings' % Lmax))
        from bcmc.explore import ListSpace
        out.append(ListSpace('long-recordings', [[w, fe, b] for w in ('@A', '@B', '@C', '@D') for fe in (None, 'peak', 'trough') for b in (0, 7)][:24 if tier != 'quick' else 24],
                             eval_long, describe='midpoints of every flank of four long real-valued recordings (flanks of 25 / 52 / 100 samples)'))
    if tier != 'quick':
        al = S.alphabet(0, seed, extra=2) + S.alphabet(4)
        out.append(ProductSpace('words-Wextra(6,5)', S.word_dims(al, 5), eval_word, bounds={'letters': al}))
        out.append(ProductSpace('words-W(6,6)', S.word_dims(S.alphabet(6), 6), eval_word, bounds={'letters': S.alphabet(6)}))
    return out
