"""C01 - the cycle table is a complete, ordered, gap-free segmentation.

Space: words over the waveform alphabet x option sets with a bounded number of deviations from the
default (fs / band / filter length / boundary / centring / burst method / return_samples / global
signal transforms), through compute_features and Bycycle.fit.  Oracle: structural invariants +
reference extrema (kinds and count) + reference midpoints."""
import numpy as np
import pandas as pd

from bcmc.explore import ProductSpace, OK, VIOL, SKIP
from bcmc import spaces as S
from bcmc.pipe import precondition, run_cf, sample_cols
from bcmc.ref.zerox import ref_zerox
from bcmc.ref.table import diff_tables, table_hash

LEVEL = 'model_checking'
RULE = ('product tree: letters per position, then the option set; every (word, option set) leaf is one pipeline call; '
        'non-trivial = >= 3 rows and a cyclepoint spacing pattern that is not uniform; distinct = distinct table hashes')
ASSUMPTIONS = ['precondition (signal longer than the filter, >= 3 peaks and troughs after boundary trimming) is '
               'evaluated by the reference model; cases outside are skipped and counted',
               'neurodsp filter_signal is the trusted base of the reference']


def check_table(df, sig, o, ref, w):
    centre = o['center_extrema']
    sc = sample_cols(centre)
    sgn = {'centre': centre, 'method': o['burst_method']}
    if not isinstance(df, pd.DataFrame):
        return VIOL(dict(sgn, kind='type'), 'result is not a DataFrame')
    n = len(sig)
    b = o['boundary'] or 0
    k = len(ref['peaks'])
    if len(df) != k - 1:
        return VIOL(dict(sgn, kind='rowcount'), 'row count %d != reference peak count - 1 = %d' % (len(df), k - 1))
    for c in sc.values():
        if c not in df.columns:
            return VIOL(dict(sgn, kind='columns'), 'missing sample column %s' % c)
    L, C, N = (df[sc[x]].to_numpy().astype(int) for x in ('last', 'centre', 'next'))
    R, D, LZ = (df[sc[x]].to_numpy().astype(int) for x in ('rise', 'decay', 'last_zx'))
    obs = {c: df[c].tolist() for c in sc.values()}
    if not (np.all(L < C) and np.all(C < N)):
        return VIOL(dict(sgn, kind='order'), 'not last < centre < next', observed=obs)
    if not np.array_equal(N[:-1], L[1:]):
        return VIOL(dict(sgn, kind='tiling'), 'consecutive rows do not share their side extremum', observed=obs)
    allidx = np.concatenate([L, C, N, R, D, LZ])
    if not (np.all(allidx >= 0) and np.all(allidx < n)):
        return VIOL(dict(sgn, kind='range'), 'index outside the signal', observed=obs)
    ext = np.concatenate([L, C, N])
    if not (np.all(ext > b) and np.all(ext < n - b)):
        return VIOL(dict(sgn, kind='boundary'), 'extremum within the boundary', observed=obs)
    # midpoints between the extrema they separate (inclusive)
    if centre == 'peak':
        first_mid, second_mid = R, D      # rise between last trough and peak, decay between peak and next trough
    else:
        first_mid, second_mid = D, R
    if not (np.all(L <= first_mid) and np.all(first_mid <= C) and np.all(C <= second_mid) and np.all(second_mid <= N)):
        return VIOL(dict(sgn, kind='midpoints'), 'midpoint not between the extrema it separates', observed=obs)
    if not (np.all(LZ <= L)):
        return VIOL(dict(sgn, kind='last-midpoint'), 'last midpoint after the last side extremum', observed=obs)
    if len(df) > 1 and not np.array_equal(LZ[1:], second_mid[:-1]):
        return VIOL(dict(sgn, kind='last-midpoint'), 'last midpoint is not the previous row\'s closing midpoint', observed=obs)
    # genuine kinds: reference extrema of the searched signal
    if C.tolist() != ref['peaks'][1:] or L.tolist() != ref['troughs'][:-1] or N.tolist() != ref['troughs'][1:]:
        return VIOL(dict(sgn, kind='kinds'), 'extrema are not the reference extrema of their kind',
                    expected={'centre': ref['peaks'][1:], 'last': ref['troughs'][:-1], 'next': ref['troughs'][1:]},
                    observed=obs)
    x = -sig if centre == 'trough' else sig
    rr, rd = ref_zerox(x, ref['peaks'], ref['troughs'])
    if first_mid.tolist() != rr or second_mid.tolist() != rd[1:] or LZ.tolist() != rd[:-1]:
        return VIOL(dict(sgn, kind='midpoint-ref'), 'midpoints differ from the half-height reference',
                    expected={'first': rr, 'second': rd[1:], 'last': rd[:-1]}, observed=obs)
    if 'is_burst' not in df.columns or df['is_burst'].dtype != bool:
        return VIOL(dict(sgn, kind='is_burst'), 'is_burst column missing or not boolean')
    return None


class Pipeline:
    def __init__(self, fit_too=True, min_peaks=3):
        self.fit_too = fit_too
        self.min_peaks = min_peaks

    def __call__(self, case):
        letters, devs = case[:-1], tuple(case[-1])
        w = ''.join(letters)
        o = S.resolve(devs)
        sig = S.make_signal(w, o)
        ok, why, ref = precondition(sig, o, min_peaks=self.min_peaks)
        if not ok:
            return SKIP(why)
        sgn = {'centre': o['center_extrema'], 'method': o['burst_method']}
        from bycycle.features import compute_features
        kw = S.call_kwargs(o)                # ONE set of option objects for every call of this case (as a user would)
        flag = kw.pop('return_samples')

        def cf(rs):
            arg = sig if o.get('layout', 'plain') != 'plain' else np.array(sig, dtype=float)
            fs_, fr_ = S.call_fs(o)
            return compute_features(arg, fs_, fr_, return_samples=rs, **kw)
        try:
            df = cf(True)
        except Exception as e:      # noqa
            import traceback
            return VIOL(dict(sgn, kind='raise', exc=type(e).__name__, devs=list(devs)),
                        'compute_features raised %s: %s' % (type(e).__name__, str(e)[:160]),
                        observed=traceback.format_exc()[-1500:])
        v = check_table(df, sig, o, ref, w)
        if v is not None:
            v['sig']['devs'] = list(devs)
            return v
        nev = 1
        if not flag:
            d2 = cf(False)
            nev += 1
            if any(c.startswith('sample_') for c in d2.columns):
                return VIOL(dict(sgn, kind='nosamples'), 'sample columns returned with return_samples=False')
            dd = diff_tables(d2, df[[c for c in df.columns if not c.startswith('sample_')]], exact=True)
            if dd:
                return VIOL(dict(sgn, kind='nosamples'), 'return_samples=False changes other columns: ' + dd)
        if self.fit_too and (devs in CORE_SETS or 'find_extrema_kwargs' in kw):
            from bycycle import Bycycle
            bm = Bycycle(center_extrema=kw['center_extrema'], burst_method=kw['burst_method'],
                         burst_kwargs=kw.get('burst_kwargs'), thresholds=kw.get('threshold_kwargs'),
                         find_extrema_kwargs=kw.get('find_extrema_kwargs'), return_samples=True)
            try:
                bm.fit(np.array(sig), o['fs'], o['f_range'])
            except Exception as e:      # noqa
                return VIOL(dict(sgn, kind='raise-fit', exc=type(e).__name__, devs=list(devs)),
                            'Bycycle.fit raised %s: %s' % (type(e).__name__, str(e)[:160]))
            nev += 1
            v = check_table(bm.df_features, sig, o, ref, w)
            if v is not None:
                v['sig']['via'] = 'Bycycle.fit'
                return v
            if 'find_extrema_kwargs' in kw:
                # the same option objects once more (second fit on the object, second functional call)
                bm.fit(np.array(sig), o['fs'], o['f_range'])
                for tab, via in ((bm.df_features, 'second Bycycle.fit'), (cf(True), 'second compute_features call')):
                    nev += 1
                    v = check_table(tab, sig, o, ref, w)
                    if v is not None:
                        v['sig']['via'] = via
                        v['sig']['devs'] = list(devs)
                        return v
            if devs in CORE_SETS:
                # the SAME array object fitted again after an in-place edit of the object's settings: the requested boundary
                # in force at the time of the fit is the one that has to be respected
                for b2 in (7, 13):
                    o2 = dict(o, boundary=b2)
                    ok2, _, ref2 = precondition(sig, o2, min_peaks=self.min_peaks)
                    if not ok2:
                        continue
                    arr = np.array(sig)
                    bm2 = Bycycle(center_extrema=kw['center_extrema'], burst_method=kw['burst_method'],
                                  burst_kwargs=kw.get('burst_kwargs'), thresholds=kw.get('threshold_kwargs'), return_samples=True)
                    bm2.fit(arr, o['fs'], o['f_range'])
                    bm2.find_extrema_kwargs['boundary'] = b2
                    bm2.fit(arr, o['fs'], o['f_range'])
                    nev += 2
                    v = check_table(bm2.df_features, sig, o2, ref2, w)
                    if v is not None:
                        v['sig']['via'] = 'Bycycle.fit of the same array after find_extrema_kwargs[boundary] was edited in place'
                        v['sig']['devs'] = list(devs)
                        return v
                    break
        sc = sample_cols(o['center_extrema'])
        gaps = set(np.diff(df[sc['centre']].to_numpy()).tolist()) if len(df) > 1 else set()
        return OK(outcome=table_hash(df, sorted(sc.values())), nontrivial=len(df) >= 3 and len(gaps) > 1, evals=nev,
                  sample={'rows': len(df), 'centre_samples': df[sc['centre']].tolist()} if len(gaps) > 1 else None)


CORE_SETS = [(), ('trough',), ('amp',), ('amp', 'trough')]


def spaces(tier, seed):
    ev = Pipeline()
    out = []
    if True:
        al6, al5 = S.alphabet(6), S.alphabet(5)
        out.append(ProductSpace('W(6,5)xcore', S.word_dims(al6, 5) + [CORE_SETS], ev,
                                describe='all 5-letter words over 6 letters x 4 core option sets',
                                bounds={'letters': al6, 'option_sets': len(CORE_SETS)}))
        singles = [d for d in S.option_sets(1) if d not in CORE_SETS]
        al5 = S.alphabet(4)
        out.append(ProductSpace('W(4,5)x1dev', S.word_dims(al5, 5) + [singles], ev,
                                describe='all 5-letter words over 4 letters x every single deviation',
                                bounds={'letters': al5, 'option_sets': len(singles), 'max_deviations': 1}))
        alv = ['a', 's', 'l', 'v']
        out.append(ProductSpace('Wlen(4,6)xcore', S.word_dims(alv, 6) + [[(), ('amp', 'trough')]], ev,
                                describe='6-letter words over letters of 8 / 6 / 10 / 7 samples: signal lengths 36..60 incl. primes',
                                bounds={'letters': alv}))
        al3 = S.alphabet(3)
        longs = [('nc4',), ('b12',), ('b12', 'trough'), ('nc4', 'amp')]
        out.append(ProductSpace('W(3,7)xlong', S.word_dims(al3, 7) + [longs], ev,
                                describe='7-letter words x the deviations that need longer signals (43-tap filter, boundary 12)',
                                bounds={'letters': al3, 'option_sets': len(longs)}))
        flats = [('dc5',), ('dc5', 'trough'), ('amp', 'dc5'), ('amp', 'mbd'), ('amp', 'mbd', 'trough')]
        out.append(ProductSpace('Wflat(3,5)', S.word_dims(['a', 'z', 'd'], 5) + [flats], ev,
                                describe='constant stretches at a NON-zero level (zero letters + DC offset: sample-and-hold drop-outs, rails) and the amplitude '
                                         'method with a minimum burst duration', bounds={'letters': ['a', 'z', 'd'], 'option_sets': len(flats)}))
        shorts = [('b12',), ('b12', 'trough'), ('b12', 'amp'), ('b12', 'amp', 'trough')]
        out.append(ProductSpace('W(4,5)xone-row', S.word_dims(S.alphabet(4), 5) + [shorts[:2] if tier == 'quick' else shorts], Pipeline(min_peaks=2),
                                describe='5-letter words with boundary 12: recordings that hold exactly ONE or two complete cycles '
                                         '(tables of one / two rows)', bounds={'letters': S.alphabet(4), 'option_sets': 2 if tier == 'quick' else len(shorts)}))
        from bcmc.explore import ListSpace
        lv = [(), ('trough',), ('amp',), ('amp', 'trough'), ('b5',), ('nosamp',)]
        out.append(ListSpace('long-recordings', S.long_cases(['@A', '@B', '@C', '@D'] if tier == 'quick' else ['@A', '@B', '@C', '@D', '@E'], lv), ev,
                             describe='long real-valued recordings (660 / 1430 / 300 / 200 cycles; 33000-70000 samples, one longer than 2**16; '
                                      'fs 500 / 1000 / 1017.25 / 2000) x centring x method: size-keyed code paths'))
    if tier != 'quick':
        # thorough = everything above + larger word sets and deeper option deviations
        al = S.alphabet(7, seed, extra=0)
        out.append(ProductSpace('W(7,5)xcore', S.word_dims(al, 5) + [CORE_SETS], ev,
                                bounds={'letters': al, 'option_sets': len(CORE_SETS)}))
        ex = S.alphabet(0, seed, extra=2)
        out.append(ProductSpace('Wextra(2+3,5)xcore', S.word_dims(ex + S.alphabet(3), 5) + [CORE_SETS], ev,
                                describe='words over the two seed-selected extra letters + a, b, d', bounds={'letters': ex + S.alphabet(3)}))
        out.append(ProductSpace('W(5,6)xcentring', S.word_dims(S.alphabet(5), 6) + [[(), ('trough',)]], ev,
                                bounds={'letters': S.alphabet(5)}))
        two = S.option_sets(2)
        out.append(ProductSpace('W(3,5)x2dev', S.word_dims(S.alphabet(3), 5) + [two], Pipeline(fit_too=False),
                                bounds={'letters': S.alphabet(3), 'option_sets': len(two), 'max_deviations': 2}))
        menu = ['trough', 'amp', 'ns.5', 'b5', 'fs128', 'nosamp', 'x1024', 'neg']
        full = [c for k in range(len(menu) + 1) for c in __import__('itertools').combinations(menu, k) if S.compatible(c)]
        out.append(ProductSpace('W(4,5)xfull', S.word_dims(S.alphabet(4), 5) + [full], Pipeline(fit_too=False),
                                bounds={'letters': S.alphabet(4), 'option_sets': len(full),
                                        'menu': menu, 'max_deviations': len(menu)}))
    return out
