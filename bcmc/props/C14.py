"""C14 - Bycycle objects reproduce the functional API and hold no stale state.

Explicit-state BFS over operation histories on a live object: fit on two signals, recompute_edges,
threshold edits, burst-option edits, load - from every initial configuration (method x centring x
threshold spelling x burst options).  Every history is replayed on a fresh object; the canonical state is
(live settings, settings ledger, table hash, signal id); each new state is expanded once.  After every
fit the table must equal compute_features with the ledger (the user's view of the current settings), a
fresh object built from the ledger, and a fresh object built from the live attributes.  A second BFS
covers BycycleGroup (2-D / 3-D fits, axis modes, threshold edits; models mirror df_features and sigs)."""
import copy
import collections

import numpy as np

from bcmc.explore import ListSpace, OK, VIOL, SKIP
from bcmc import spaces as S
from bcmc.ref.table import diff_tables, table_hash

LEVEL = 'model_checking'
RULE = ('one BFS per initial configuration (explicit states de-duplicated by canonical key, each transition = one operation '
        'executed on the real object); states / transitions are BFS counts; non-trivial = BFS reaching >= 10 distinct states; '
        'distinct = distinct initial configurations')
ASSUMPTIONS = ['"current settings" = constructor arguments (shorthand expanded, documented defaults filled in) plus the edits '
               'applied since, kept in a ledger by the harness', 'recompute_edges(r) is compared with the functional '
               'recompute_edges (decided by C16) applied to the previous table with every *_threshold lowered by r']

FS, FR = 64, (6, 14)
SIGS = {'S1': S.word_signal('aadaaazzaaaadaan'), 'S2': S.word_signal('bbnbbdabbbzbb'),
        'S3': S.sensitive_signal(0)}      # S3: table depends on the narrow-band filter length
FEK_DEFAULT = {'filter_kwargs': {'n_cycles': 3}}
CYC_DEFAULT = {'amp_fraction_threshold': 0., 'amp_consistency_threshold': .5, 'period_consistency_threshold': .5,
               'monotonicity_threshold': .8, 'min_n_cycles': 3}
AMP_DEFAULT = {'burst_fraction_threshold': 1, 'min_n_cycles': 3}


def inits():
    out = []
    for method in ('cycles', 'amp'):
        for centre in ('peak', 'trough'):
            if method == 'cycles':
                ths = [None, dict(S.T0, amp_fraction_threshold=.1),
                       {'amp_fraction_threshold': np.float32(.125), 'amp_consistency_threshold': np.float64(.5),
                        'period_consistency_threshold': np.float16(.5), 'monotonicity_threshold': np.float32(.625), 'min_n_cycles': np.int64(2)},
                       {'amp_fraction': .1, 'amp_consistency': .5, 'period_consistency': .5, 'monotonicity': .6, 'min_n_cycles': 2}]
                bks = [None]
            else:
                ths = [None, {'burst_fraction_threshold': .5, 'min_n_cycles': 2}, {'burst_fraction': .5, 'min_n_cycles': 2}]
                bks = [None, {'amp_threshes': (.5, 1.)}, {'amp_threshes': (.5, 1.), 'min_n_cycles': 1}]
            for th in ths:
                for bk in bks:
                    out.append({'center_extrema': centre, 'burst_method': method, 'thresholds': th, 'burst_kwargs': bk})
    # PARTIAL threshold dictionaries: the missing thresholds stay at the function defaults and are NOT 'given' (recompute_edges(r)
    # lowers the given ones only)
    for centre in ('peak', 'trough'):
        out.append({'center_extrema': centre, 'burst_method': 'cycles', 'thresholds': {'amp_consistency_threshold': .6, 'period_consistency_threshold': .6,
                                                                                        'min_n_cycles': 2}, 'burst_kwargs': None})
    out.append({'center_extrema': 'peak', 'burst_method': 'cycles', 'thresholds': {'monotonicity': .5, 'amp_fraction_threshold': .2}, 'burst_kwargs': None})
    # tables WITHOUT sample columns (return_samples=False) - an option that interacts with recompute_edges
    for centre in ('peak', 'trough'):
        out.append({'center_extrema': centre, 'burst_method': 'cycles', 'thresholds': dict(S.T0, amp_consistency_threshold=.6), 'burst_kwargs': None,
                    'return_samples': False})
    return out


def ops_for(method):
    ops = [['fit', 'S1'], ['fit', 'S3'], ['setthr', 'min_n_cycles', 4], ['setthr', 'min_n_cycles', 1], ['load'], ['setfek', 2],
           ['rebind', 'min_n_cycles', 3]]
    if _TIER[0] != 'quick':
        ops.append(['fit', 'S2'])
    elif method == 'amp':
        ops[0] = ['fit', 'S2']        # S2 is the signal whose amplitude-burst mask depends on the detector's filter length
    if method == 'cycles':
        ops += [['setthr', 'monotonicity_threshold', .4], ['edges', None], ['edges', .05]]
    else:
        ops += [['setthr', 'burst_fraction_threshold', .9], ['setbk', 'min_n_cycles', 3], ['delbk', 'min_n_cycles']]
    return ops


def expand(th, method):
    if th is None:
        return dict(CYC_DEFAULT if method == 'cycles' else AMP_DEFAULT)
    return {(k if k.endswith('_threshold') or k == 'min_n_cycles' else k + '_threshold'): v for k, v in th.items()}


def freeze(o):
    if isinstance(o, dict):
        return tuple(sorted((k, freeze(v)) for k, v in o.items()))
    if isinstance(o, (list, tuple)):
        return tuple(freeze(v) for v in o)
    return o


def functional(sig, led):
    from bycycle.features import compute_features
    return compute_features(np.array(sig), FS, FR, led['center_extrema'], led['burst_method'],
                            copy.deepcopy(led['burst_kwargs']), copy.deepcopy(led['thresholds']),
                            copy.deepcopy(led.get('find_extrema_kwargs')), led.get('return_samples', True))


def check_fresh_defaults(method):
    """A newly constructed default object must carry the documented default settings, whatever was done to other
    objects before (module-level defaults must not leak)."""
    from bycycle import Bycycle, BycycleGroup
    for cls in (Bycycle, BycycleGroup):
        b = cls(burst_method=method)
        exp_thr = CYC_DEFAULT if method == 'cycles' else AMP_DEFAULT
        if freeze(b.thresholds) != freeze(exp_thr) or freeze(b.find_extrema_kwargs) != freeze(FEK_DEFAULT) or b.burst_kwargs != {}:
            return ('default-leak', 'a freshly constructed %s() carries settings %s / %s / %s instead of the documented defaults'
                    % (cls.__name__, b.thresholds, b.find_extrema_kwargs, b.burst_kwargs))
    return None


def build(init, hist):
    """Replay ``hist`` on a fresh object. Returns (obj, ledger, signal id, problem or None)."""
    from bycycle import Bycycle
    from bycycle.burst import recompute_edges
    led = {'center_extrema': init['center_extrema'], 'burst_method': init['burst_method'],
           'thresholds': expand(copy.deepcopy(init['thresholds']), init['burst_method']),
           'burst_kwargs': {} if init['burst_kwargs'] is None else copy.deepcopy(init['burst_kwargs']),
           'find_extrema_kwargs': copy.deepcopy(FEK_DEFAULT), 'return_samples': init.get('return_samples', True)}
    bm = Bycycle(**copy.deepcopy(init))
    sid, table_kind = None, None
    arrs = {}
    for op in hist:
        kind = op[0]
        if kind == 'fit':
            sig = SIGS[op[1]]
            try:
                # the caller keeps ONE array object per recording and passes it to every fit of the history
                bm.fit(arrs.setdefault(op[1], np.array(sig)), FS, FR)
            except Exception as e:      # noqa
                return bm, led, sid, ('raise', 'fit raised %s: %s' % (type(e).__name__, str(e)[:150]))
            sid, table_kind = op[1], led['burst_method']
            ref = functional(sig, led)
            dd = diff_tables(bm.df_features, ref)
            if dd:
                return bm, led, sid, ('fit-vs-functional', 'after fit, df_features != compute_features with the current settings: ' + dd)
            fresh = Bycycle(center_extrema=led['center_extrema'], burst_method=led['burst_method'],
                            burst_kwargs=copy.deepcopy(led['burst_kwargs']), thresholds=copy.deepcopy(led['thresholds']),
                            find_extrema_kwargs=copy.deepcopy(led['find_extrema_kwargs']), return_samples=led['return_samples'])
            fresh.fit(np.array(sig), FS, FR)
            dd = diff_tables(bm.df_features, fresh.df_features)
            if dd:
                return bm, led, sid, ('fit-vs-fresh', 'fit differs from a freshly constructed object with the current settings: ' + dd)
            fresh2 = Bycycle(center_extrema=bm.center_extrema, burst_method=bm.burst_method,
                             burst_kwargs=copy.deepcopy(bm.burst_kwargs), thresholds=copy.deepcopy(bm.thresholds),
                             find_extrema_kwargs=copy.deepcopy(bm.find_extrema_kwargs), return_samples=bm.return_samples)
            fresh2.fit(np.array(sig), FS, FR)
            dd = diff_tables(bm.df_features, fresh2.df_features)
            if dd:
                return bm, led, sid, ('hidden-state', 'fit differs from a fresh object built from the live attributes: ' + dd)
            for c in bm.df_features.columns:
                v = getattr(bm, c)
                if not np.array_equal(np.asarray(v), bm.df_features[c].values, equal_nan=bm.df_features[c].dtype != bool):
                    return bm, led, sid, ('attribute', 'attribute %s does not return the column' % c)
            try:
                getattr(bm, 'no_such_column')
                return bm, led, sid, ('attribute', 'unknown attribute did not raise AttributeError')
            except AttributeError:
                pass
            if bm.sig is None or not np.array_equal(bm.sig, sig) or bm.fs != FS or tuple(bm.f_range) != FR:
                return bm, led, sid, ('attribute', 'sig / fs / f_range not stored')
        elif kind == 'setthr':
            bm.thresholds[op[1]] = op[2]
            led['thresholds'][op[1]] = op[2]
        elif kind == 'rebind':
            bm.thresholds = dict(bm.thresholds, **{op[1]: op[2]})          # a NEW dict object is assigned to the attribute
            led['thresholds'][op[1]] = op[2]
        elif kind == 'setfek':
            bm.find_extrema_kwargs['filter_kwargs']['n_cycles'] = op[1]       # in-place edit of a nested setting
            led['find_extrema_kwargs']['filter_kwargs']['n_cycles'] = op[1]
            # ... and a fresh default object still analyses the filter-sensitive signal with the default filter
            d = Bycycle(thresholds=copy.deepcopy(led['thresholds']), burst_method=led['burst_method'], return_samples=led['return_samples'])
            d.fit(np.array(SIGS['S3']), FS, FR)
            dd = diff_tables(d.df_features, functional(SIGS['S3'], dict(led, center_extrema='peak', burst_kwargs={},
                                                                        find_extrema_kwargs=None)))
            if dd:
                return bm, led, sid, ('default-leak', 'a fresh default object fitted after an in-place settings edit on ANOTHER object '
                                      'differs from compute_features with default filter settings: ' + dd)
        elif kind == 'setbk':
            bm.burst_kwargs[op[1]] = op[2]
            led['burst_kwargs'][op[1]] = op[2]
        elif kind == 'delbk':
            bm.burst_kwargs.pop(op[1], None)
            led['burst_kwargs'].pop(op[1], None)
        elif kind == 'load':
            tab = functional(SIGS['S2'], dict(led, thresholds=expand(None, led['burst_method']), find_extrema_kwargs=None,
                                              burst_kwargs={'amp_threshes': (.5, 1.)} if led['burst_method'] == 'amp' else {}))
            bm.load(tab.copy(), np.array(SIGS['S2']), FS, FR)
            sid, table_kind = 'S2-loaded', led['burst_method']
            if diff_tables(bm.df_features, tab):
                return bm, led, sid, ('load', 'load did not store the table')
            msg = check_attrs(bm)
            if msg:
                return bm, led, sid, ('attribute', msg + ' (after load)')
        elif kind == 'edges':
            if bm.df_features is None or table_kind != 'cycles':
                continue
            prev = bm.df_features.copy()
            r = op[1]
            red = {k: (v - (r or 0) if k.endswith('threshold') else v) for k, v in led['thresholds'].items()}
            try:
                exp, exp_err = recompute_edges(prev, red), None
            except ValueError as e:
                exp, exp_err = None, e      # e.g. a threshold lowered below 0: the functional API rejects it, so must the object
            try:
                bm.recompute_edges(r)
            except Exception as e:      # noqa
                if exp_err is not None and isinstance(e, ValueError):
                    continue
                return bm, led, sid, ('raise', 'recompute_edges raised %s: %s' % (type(e).__name__, str(e)[:150]))
            if exp_err is not None:
                return bm, led, sid, ('edges', 'recompute_edges(%r) succeeded although the functional API rejects the lowered thresholds' % r)
            msg = check_attrs(bm)
            if msg:
                return bm, led, sid, ('attribute', msg + ' (after recompute_edges)')
            dd = diff_tables(bm.df_features, exp)
            if dd:
                return bm, led, sid, ('edges', 'recompute_edges(%r) differs from the functional edge recomputation with the current '
                                      'thresholds lowered by r: %s' % (r, dd))
    return bm, led, sid, None


def check_attrs(bm):
    for c in bm.df_features.columns:
        v = getattr(bm, c)
        if not np.array_equal(np.asarray(v), bm.df_features[c].values, equal_nan=bm.df_features[c].dtype != bool):
            return 'attribute %s does not return the column of the current table' % c
    return None


def canon(bm, led, sid):
    return (freeze(bm.thresholds), freeze(bm.burst_kwargs), freeze(bm.find_extrema_kwargs), freeze(led['thresholds']),
            freeze(led['burst_kwargs']), freeze(led['find_extrema_kwargs']), table_hash(bm.df_features), sid)


DEPTH = {'quick': 3, 'thorough': 4}
_TIER = ['quick']


def eval_init(case):
    init = case
    D = DEPTH[_TIER[0]]
    ops = ops_for(init['burst_method'])
    seen = set()
    q = collections.deque([[]])
    bm, led, sid, prob = build(init, [])
    seen.add(canon(bm, led, sid))
    states, trans, maxd = 1, 0, 0
    while q:
        h = q.popleft()
        if len(h) >= D:
            continue
        for op in ops:
            h2 = h + [op]
            bm, led, sid, prob = build(init, h2)
            trans += 1
            if prob:
                return VIOL({'kind': prob[0], 'method': init['burst_method'], 'last_op': op[0], 'history': h2,
                             'shorthand': bool(init['thresholds']) and any(not k.endswith('_threshold') and k != 'min_n_cycles'
                                                                          for k in init['thresholds'])},
                            '%s | init %s | history %s' % (prob[1], init, h2), observed={'init': init, 'history': h2},
                            evals=trans)
            k = canon(bm, led, sid)
            if k not in seen:
                seen.add(k)
                states += 1
                maxd = max(maxd, len(h2))
                q.append(h2)
    r = OK(outcome=(freeze(init), states, trans), nontrivial=states >= 10, evals=trans,
           sample={'bfs_states': states, 'bfs_transitions': trans, 'max_depth': maxd})
    r['add_states'], r['add_transitions'] = states, trans
    return r


# ---- BycycleGroup -----------------------------------------------------------------------------------
GW = ['aabeaa', 'bbadab', 'eadaba', 'daabea', 'abdeab', 'beadaa']
A2 = np.array([S.word_signal(w) for w in GW[:3]])
A3 = np.array([[S.word_signal(GW[i * 3 + j]) for j in range(3)] for i in range(2)])
A2B = np.array([S.word_signal(GW[i % len(GW)]) * (1. + i) for i in range(12)])          # more than ten signals (two-digit positions)
A3B = np.array([[S.word_signal(GW[(i * 12 + j) % len(GW)]) * (1. + i * 12 + j) for j in range(12)] for i in range(2)])
GOPS = [['fit2big', 0], ['fit3big', [0, 1]], ['fit2', 0], ['fit2', None], ['fit3', 0], ['fit3', 1], ['fit3', [0, 1]], ['setthr', 'min_n_cycles', 1],
        ['setthr', 'monotonicity_threshold', .3], ['edges', .1], ['rebind', 'amp_consistency_threshold', .3]]


def gbuild(init, hist):
    from bycycle import BycycleGroup
    from bycycle.group import compute_features_2d, compute_features_3d
    led = {'center_extrema': init['center_extrema'], 'burst_method': 'cycles', 'thresholds': expand(copy.deepcopy(init['thresholds']), 'cycles')}
    bg = BycycleGroup(center_extrema=init['center_extrema'], thresholds=copy.deepcopy(init['thresholds']))
    last = None
    garrs = {}
    for op in hist:
        if op[0] in ('fit2', 'fit3', 'fit2big', 'fit3big'):
            sigs = {'fit2': A2, 'fit3': A3, 'fit2big': A2B, 'fit3big': A3B}[op[0]]
            op = [op[0][:4], op[1]]
            axis = tuple(op[1]) if isinstance(op[1], list) else op[1]
            try:
                bg.fit(garrs.setdefault(op[0] + str(sigs.shape), sigs.copy()), FS, FR, axis=axis, n_jobs=1)      # one array object per recording set
            except Exception as e:      # noqa
                return bg, led, last, ('raise', 'BycycleGroup.fit raised %s: %s' % (type(e).__name__, str(e)[:150]))
            last = (op[0], repr(axis))
            fn = compute_features_2d if op[0] == 'fit2' else compute_features_3d
            kw = {'center_extrema': led['center_extrema'], 'burst_method': 'cycles', 'threshold_kwargs': copy.deepcopy(led['thresholds'])}
            exp = fn(sigs.copy(), FS, FR, kw, axis=axis, n_jobs=1)
            flat_got = bg.df_features if op[0] == 'fit2' else [d for row in bg.df_features for d in row]
            flat_exp = exp if op[0] == 'fit2' else [d for row in exp for d in row]
            if len(flat_got) != len(flat_exp):
                return bg, led, last, ('group-fit', 'result shape differs from the functional group API')
            for i, (g, e) in enumerate(zip(flat_got, flat_exp)):
                dd = diff_tables(g, e)
                if dd:
                    return bg, led, last, ('group-fit', 'slot %d differs from the functional group API with the current settings: %s' % (i, dd))
            models = bg.models if op[0] == 'fit2' else [m for row in bg.models for m in row]
            srows = list(sigs) if op[0] == 'fit2' else [s for row in sigs for s in row]
            if len(bg) != len(bg.models) or len(models) != len(flat_got):
                return bg, led, last, ('models', 'models do not have the shape of df_features')
            for i, (m, g, s) in enumerate(zip(models, flat_got, srows)):
                if diff_tables(m.df_features, g) or not np.array_equal(m.sig, s):
                    return bg, led, last, ('models', 'models[%d] does not mirror df_features / sigs' % i)
        elif op[0] == 'setthr':
            bg.thresholds[op[1]] = op[2]
            led['thresholds'][op[1]] = op[2]
        elif op[0] == 'rebind':
            bg.thresholds = dict(bg.thresholds, **{op[1]: op[2]})
            led['thresholds'][op[1]] = op[2]
        elif op[0] == 'edges':
            if last is None:
                continue
            from bycycle.burst import recompute_edges
            models = bg.models if last[0] == 'fit2' else [m for row in bg.models for m in row]
            prev = [m.df_features.copy() for m in models]
            red = {k: (v - op[1] if k.endswith('threshold') else v) for k, v in led['thresholds'].items()}
            if any(v < 0 for k, v in red.items() if k.endswith('threshold')):
                continue        # lowered thresholds leave [0, 1]: rejected by both APIs (C19), no state change expected
            try:
                bg.recompute_edges(op[1])
            except Exception as e:      # noqa
                return bg, led, last, ('raise', 'BycycleGroup.recompute_edges raised %s: %s' % (type(e).__name__, str(e)[:150]))
            for i, (m, p) in enumerate(zip(models, prev)):
                dd = diff_tables(m.df_features, recompute_edges(p, red)) if len(p) else None
                if dd:
                    return bg, led, last, ('edges', 'models[%d] after recompute_edges differs from the functional result: %s' % (i, dd))
    return bg, led, last, None


def eval_group(case):
    init = case
    D = 2 if _TIER[0] == 'quick' else 3
    seen, q = set(), collections.deque([[]])
    states, trans = 1, 0

    def key(bg, led, last):
        models = [] if not bg.models else (bg.models if not isinstance(bg.models[0], list) else [m for row in bg.models for m in row])
        return (freeze(bg.thresholds), freeze(led['thresholds']), last, tuple(table_hash(m.df_features) for m in models))
    bg, led, last, prob = gbuild(init, [])
    seen.add(key(bg, led, last))
    while q:
        h = q.popleft()
        if len(h) >= D + 1:
            continue
        for op in GOPS:
            if len(h) == D and op[0] != 'edges':
                continue          # one level deeper only for recompute_edges (fit -> edit -> recompute_edges)
            if op[0].endswith('big') and h:
                continue          # the 12-signal fits only as the first operation of a history (cost)
            h2 = h + [op]
            bg, led, last, prob = gbuild(init, h2)
            trans += 1
            if prob:
                return VIOL({'kind': prob[0], 'object': 'BycycleGroup', 'last_op': op[0], 'history': h2},
                            '%s | init %s | history %s' % (prob[1], init, h2), observed={'init': init, 'history': h2}, evals=trans)
            k = key(bg, led, last)
            if k not in seen:
                seen.add(k)
                states += 1
                q.append(h2)
    r = OK(outcome=(freeze(init), states, trans), nontrivial=states >= 10, evals=trans,
           sample={'bfs_states': states, 'bfs_transitions': trans})
    r['add_states'], r['add_transitions'] = states, trans
    return r


def spaces(tier, seed):
    _TIER[0] = tier
    ginits = [{'center_extrema': c, 'thresholds': t} for c in ('peak', 'trough')
              for t in (None, dict(S.T0), {'monotonicity': .6, 'min_n_cycles': 2})]
    sp = [ListSpace('bfs:Bycycle-histories', inits(), eval_init,
                      describe='BFS over fit/fit/edit/recompute_edges/load histories, depth <= %d, one per initial configuration' % DEPTH[tier],
                      bounds={'depth': DEPTH[tier], 'initial_configurations': len(inits())}),
            ListSpace('bfs:BycycleGroup-histories', ginits, eval_group,
                      describe='BFS over 2-D / 3-D fits x axis, threshold edits, recompute_edges; depth <= %d' % (2 if tier == 'quick' else 3))]
    for x in sp:
        x.task_timeout = 600 if tier == 'quick' else 6 * 3600      # one task = one whole BFS
    return sp


def replay(rec):
    from bcmc.explore import safe_evaluate
    _TIER[0] = rec.get('tier', 'quick')
    sp = [s for s in spaces(_TIER[0], 0) if s.name == rec['space']][0]
    return safe_evaluate(sp, rec['case'])
