"""C05 - burst features equal their documented definitions.

Spaces: (i) each feature function driven directly with every small table over value alphabets that
contain ties, zeros, negatives and NaN (amp consistency x 3 directions x 2 centrings; period
consistency x 3 directions; amp fraction; monotonicity on every small signal x every cyclepoint
triple x 2 centrings); (ii) pipeline tables of all words, both centrings."""
import itertools
import math

import numpy as np
import pandas as pd

from bcmc.explore import ProductSpace, OK, VIOL, SKIP
from bcmc import spaces as S
from bcmc.pipe import precondition, run_cf, sample_cols
from bcmc.ref.burst import (ref_amp_fraction, ref_amp_consistency, ref_period_consistency, ref_monotonicity)
from bcmc.ref.table import same_values, table_hash

LEVEL = 'model_checking'
RULE = ('product trees over per-cycle values (every prefix of admissible length is a table) and over letters; '
        'non-trivial = interior cycle whose three pair ratios are not all equal / table with a rank tie / signal with a '
        'non-monotone flank; distinct = distinct (input, feature vector) outcomes')
ASSUMPTIONS = ['float compare rtol 1e-9 atol 1e-12; NaN equals NaN']

NAN = float('nan')
DIRS = ('both', 'next', 'last')
PAIRS = [(r, d) for r in (-1, 0, 1, 2, 4) for d in (-1, 0, 1, 2, 4)]
PAIRS_NAN = [(r, d) for r in (NAN, 0, 2) for d in (NAN, 0, 2)]


def eval_ampcons(case):
    from bycycle.features.burst import compute_amp_consistency
    n = len(case)
    R = [float(p[0]) for p in case]
    D = [float(p[1]) for p in case]
    outs, nev = [], 0
    for centre in ('peak', 'trough'):
        df = pd.DataFrame({'volt_rise': R, 'volt_decay': D, 'sample_' + centre: list(range(n))})
        for direction in DIRS:
            exp = ref_amp_consistency(R, D, centre, direction)
            with np.errstate(all='ignore'):
                got = np.asarray(compute_amp_consistency(df, direction=direction), dtype=float)
            nev += 1
            if not same_values(got, exp):
                return VIOL({'kind': 'amp_consistency', 'centre': centre, 'direction': direction},
                            'amp_consistency differs from the temporal-flank-sequence reference',
                            expected=exp, observed={'got': got.tolist(), 'rises': R, 'decays': D}, evals=nev)
            outs.append(tuple(np.round(got, 9).tolist()))
    nt = len(set(outs)) > 1
    return OK(outcome=(repr(case), tuple(outs)), nontrivial=nt, evals=nev)


def eval_percons(case):
    from bycycle.features.burst import compute_period_consistency
    P = [int(v) for v in case]
    df = pd.DataFrame({'period': P})
    if sum(P) % 3 == 1:
        df['period'] = df['period'].astype('uint16')      # compactly stored table (pd.to_numeric(downcast='unsigned'))
    elif sum(P) % 3 == 2:
        df['period'] = df['period'].astype('uint8')
    outs, nev = [], 0
    for direction in DIRS:
        exp = ref_period_consistency(P, direction)
        got = np.asarray(compute_period_consistency(df, direction=direction), dtype=float)
        nev += 1
        if not same_values(got, exp):
            return VIOL({'kind': 'period_consistency', 'direction': direction}, 'period_consistency differs from reference',
                        expected=exp, observed={'got': got.tolist(), 'periods': P}, evals=nev)
        inner = got[1:-1]
        if len(inner) and not np.all((inner >= 0) & (inner <= 1)):
            return VIOL({'kind': 'range', 'col': 'period_consistency'}, 'period_consistency outside [0,1]', observed=got.tolist())
        outs.append(tuple(np.round(got, 9).tolist()))
    return OK(outcome=(tuple(P), tuple(outs)), nontrivial=len(set(P)) > 1 and len(P) >= 3, evals=nev)


def eval_ampfrac(case):
    from bycycle.features.burst import compute_amp_fraction
    V = [float(v) for v in case]
    df = pd.DataFrame({'volt_amp': V})
    ik = int(sum(v for v in V if v == v)) % 3
    if ik == 1:
        df.index = range(3, 3 + len(V))            # a slice of a longer table
    elif ik == 2:
        df.index = [i % 2 for i in range(len(V))]   # concatenated tables
    exp = ref_amp_fraction(V)
    got = np.asarray(compute_amp_fraction(df), dtype=float)
    if len(V) >= 1:
        # through compute_burst_features too (row labels must not matter)
        from bycycle.features.burst import compute_burst_features
        n = len(V)
        full = df.copy()
        full['volt_rise'] = 1.
        full['volt_decay'] = 1.
        full['period'] = 4
        full['sample_peak'] = [4 * i + 2 for i in range(n)]
        full['sample_last_trough'] = [4 * i for i in range(n)]
        full['sample_next_trough'] = [4 * i + 4 for i in range(n)]
        bf = compute_burst_features(full, np.zeros(4 * n + 5))
        if not same_values(bf['amp_fraction'].to_numpy(), exp):
            return VIOL({'kind': 'amp_fraction', 'via': 'compute_burst_features', 'index': ('default', 'offset', 'duplicate')[ik]},
                        'amp_fraction from compute_burst_features is not average-rank / n (row labels: %s)' % ('default', 'offset', 'duplicate')[ik],
                        expected=exp, observed={'got': bf['amp_fraction'].tolist(), 'volt_amp': V})
    if not same_values(got, exp):
        return VIOL({'kind': 'amp_fraction'}, 'amp_fraction is not average-rank / n', expected=exp,
                    observed={'got': got.tolist(), 'volt_amp': V})
    fin = [v for v in V if not math.isnan(v)]
    return OK(outcome=(repr(V), tuple(np.round(got, 9).tolist())), nontrivial=len(set(fin)) < len(fin) and len(set(fin)) > 1)


def eval_mono(case):
    from bycycle.features.burst import compute_monotonicity
    sig = np.array(case, dtype=float)
    N = len(sig)
    outs, nev = [], 0
    for centre in ('peak', 'trough'):
        sc = sample_cols(centre)
        for l, c, n in itertools.combinations(range(N), 3):
            df = pd.DataFrame({sc['last']: [l], sc['centre']: [c], sc['next']: [n]})
            exp = ref_monotonicity(sig, l, c, n, centre)
            got = float(np.asarray(compute_monotonicity(df, sig))[0])
            nev += 1
            if not same_values([got], [exp]):
                return VIOL({'kind': 'monotonicity', 'centre': centre}, 'monotonicity differs from reference',
                            expected=exp, observed={'got': got, 'sig': list(case), 'triple': [l, c, n]}, evals=nev)
            if not (0 <= got <= 1):
                return VIOL({'kind': 'range', 'col': 'monotonicity'}, 'monotonicity outside [0,1]', observed=got)
            outs.append(round(got, 9))
    # two-row tables whose cycles are NOT adjacent in time (e.g. only the bursting cycles of a table were kept)
    for centre in ('peak', 'trough'):
        sc = sample_cols(centre)
        for six in itertools.combinations(range(N), 6):
            l1, c1, n1, l2, c2, n2 = six
            df = pd.DataFrame({sc['last']: [l1, l2], sc['centre']: [c1, c2], sc['next']: [n1, n2]})
            exp = [ref_monotonicity(sig, l1, c1, n1, centre), ref_monotonicity(sig, l2, c2, n2, centre)]
            got = np.asarray(compute_monotonicity(df, sig), dtype=float)
            nev += 1
            if not same_values(got, exp):
                return VIOL({'kind': 'monotonicity', 'centre': centre, 'rows': 'non-adjacent'},
                            'monotonicity of a table with non-adjacent cycles differs from the per-row definition',
                            expected=exp, observed={'got': got.tolist(), 'sig': list(case), 'rows': list(six)}, evals=nev)
    return OK(outcome=(tuple(case), tuple(outs)), nontrivial=len(set(outs)) > 2, evals=nev)


def eval_pipeline(case):
    letters, devs = case[:-1], tuple(case[-1])
    w = ''.join(letters)
    o = S.resolve(devs)
    sig = S.make_signal(w, o)
    ok, why, ref = precondition(sig, o)
    if not ok:
        return SKIP(why)
    centre = o['center_extrema']
    sc = sample_cols(centre)
    df = run_cf(sig, o, return_samples=True)
    sgn = {'centre': centre, 'via': 'pipeline', 'devs': list(devs)}
    R, D = df['volt_rise'].tolist(), df['volt_decay'].tolist()
    exp = {'amp_fraction': ref_amp_fraction(df['volt_amp'].tolist()),
           'amp_consistency': ref_amp_consistency(R, D, centre, 'both'),
           'period_consistency': ref_period_consistency(df['period'].tolist(), 'both'),
           'monotonicity': [ref_monotonicity(sig, int(a), int(c), int(b), centre)
                            for a, c, b in zip(df[sc['last']], df[sc['centre']], df[sc['next']])]}
    for k, wv in exp.items():
        got = df[k].to_numpy().astype(float)
        if not same_values(got, wv):
            return VIOL(dict(sgn, kind=k), '%s of the pipeline table differs from its definition' % k,
                        expected=wv, observed=got.tolist())
    # a row subset (every second cycle): row-wise features must not change
    from bycycle.features.burst import compute_monotonicity
    sub = df.iloc[::2]
    if len(sub) >= 2:
        got = np.asarray(compute_monotonicity(sub, np.asarray(sig, dtype=float)), dtype=float)
        if not same_values(got, [exp['monotonicity'][i] for i in range(0, len(df), 2)]):
            return VIOL(dict(sgn, kind='monotonicity', rows='subset'), 'monotonicity changes when only every second cycle is kept',
                        expected=[exp['monotonicity'][i] for i in range(0, len(df), 2)], observed=got.tolist())
    if all(v > 0 for v in R) and all(v > 0 for v in D):
        for k in exp:
            got = df[k].to_numpy().astype(float)
            fin = got[~np.isnan(got)]
            if not np.all((fin >= 0) & (fin <= 1)):
                return VIOL(dict(sgn, kind='range', col=k), '%s outside [0,1] with positive flank voltages' % k,
                            observed=got.tolist())
    if not str(w).startswith('@') and o['burst_method'] == 'cycles':
        # the consistency columns as recompute_edges re-writes them: one-sided definitions at the burst edges (oracle shared with C16)
        from bycycle.burst import recompute_edges
        from bcmc.props.C16 import check_edges
        from bcmc.ref.burst import CYC_DEFAULTS
        thr = S.call_kwargs(o).get('threshold_kwargs') or dict(CYC_DEFAULTS)
        out = recompute_edges(df.copy(), dict(thr))
        v, _, _ = check_edges(df, out, thr, centre, True, dict(sgn, via='recompute_edges'))
        if v is not None:
            return v
    if not o['return_samples']:
        # the same analysis without sample columns: every feature column unchanged
        d2 = run_cf(sig, o)
        for k in exp:
            if not same_values(d2[k].to_numpy().astype(float), exp[k]):
                return VIOL(dict(sgn, kind=k, return_samples=False), '%s changes when return_samples=False' % k,
                            expected=exp[k], observed=d2[k].tolist())
    if len(df) >= 1 and not (math.isnan(df['amp_consistency'].iloc[0]) and math.isnan(df['amp_consistency'].iloc[-1])
                             and math.isnan(df['period_consistency'].iloc[0]) and math.isnan(df['period_consistency'].iloc[-1])):
        return VIOL(dict(sgn, kind='edge-nan'), 'consistency of the first/last cycle is not NaN')
    va = df['volt_amp'].tolist()
    nt = len(set(va)) < len(va) or len(set(np.round(df['amp_consistency'].dropna(), 9))) > 1
    return OK(outcome=table_hash(df, list(exp)), nontrivial=nt,
              sample={'amp_consistency': df['amp_consistency'].tolist(), 'amp_fraction': df['amp_fraction'].tolist()} if nt else None)


def eval_resolution(case):
    """Long tables whose amplitudes are all DISTINCT but closer together than single-precision resolution (relative spacing
    2**-30 .. 2**-45), in several physical units: the rank must still separate them."""
    from bycycle.features.burst import compute_amp_fraction
    n, k, unit = case
    base = 3.0 * unit
    order = [(i * 7919) % n for i in range(n)]              # a fixed permutation (7919 is prime and larger than n is not needed: gcd = 1)
    V = [base * (1.0 + j * 2.0 ** -k) for j in order]
    if len(set(V)) != n:
        return SKIP('values not distinct in double precision')
    got = np.asarray(compute_amp_fraction(pd.DataFrame({'volt_amp': V})), dtype=float)
    exp = ref_amp_fraction(V)
    if not same_values(got, exp):
        bad = [i for i in range(n) if got[i] != exp[i]]
        return VIOL({'kind': 'amp_fraction', 'via': 'resolution', 'n': n}, 'amp_fraction of %d distinct amplitudes spaced 2**-%d apart (unit %g) is not '
                    'rank / n: %d rows differ' % (n, k, unit, len(bad)), observed={'first_bad_rows': bad[:5]})
    return OK(outcome=(n, k, unit), nontrivial=True)


def spaces(tier, seed):
    q = tier == 'quick'
    out = [
        ProductSpace('ampcons-tables', [PAIRS] * (3 if q else 4), eval_ampcons, min_len=3,
                     describe='every table of 3%s cycles with (volt_rise, volt_decay) in {-1,0,1,2,4}^2 x 3 directions x 2 centrings'
                              % ('' if q else '..4'), bounds={'values': [-1, 0, 1, 2, 4]}),
        ProductSpace('ampcons-nan', [PAIRS_NAN] * (3 if q else 4), eval_ampcons, min_len=3,
                     describe='same with values {NaN,0,2}'),
        ProductSpace('percons-tables', [[1, 2, 3, 4, 6]] * 6, eval_percons, min_len=1,
                     describe='every table of 1..6 cycles with period in {1,2,3,4,6} x 3 directions'),
        ProductSpace('ampfrac-tables', [[0, 1, 2, 3, NAN]] * (6 if q else 7), eval_ampfrac, min_len=1,
                     describe='every table of 1..6 cycles with volt_amp in {0,1,2,3,NaN} (rank ties)'),
        ProductSpace('mono-signals', [[-1, 0, 1]] * (7 if q else 8), eval_mono, min_len=3,
                     describe='every signal over {-1,0,1} of length 3..7 x every last<centre<next triple x 2 centrings'),
    ]
    from bcmc.explore import ListSpace
    out.append(ListSpace('ampfrac-resolution', [[n, k, u] for n in ((7, 600, 6007) if q else (7, 600, 2003, 6007, 20011)) for k in (30, 38, 45) for u in (1., 1e-6, 2.0 ** -40)],
                         eval_resolution, describe='tables of 7 .. 6007 (20011) distinct amplitudes spaced 2**-30 .. 2**-45 apart x 3 units'))
    out.append(ListSpace('long-recordings', S.long_cases(['@A', '@B', '@C', '@D'], [(), ('trough',)]), eval_pipeline,
                         describe='long real-valued recordings (660 / 1430 / 300 / 200 cycles) x centring: tables of more than 255 / 512 / 1000 rows'))
    opts = [(), ('trough',)]
    if q:
        al = S.alphabet(6)
        out.append(ProductSpace('W(6,5)xcentring', S.word_dims(al, 5) + [opts], eval_pipeline, bounds={'letters': al}))
        out.append(ProductSpace('W(3,7)-edges', S.word_dims(['a', 'd', 'n'], 7) + [[('thr1',), ('thr1', 'trough')]], eval_pipeline,
                                describe='7-letter words (bursts with edges inside the table): consistency columns after recompute_edges'))
        out.append(ProductSpace('W(4,5)xnosamp', S.word_dims(S.alphabet(4), 5) + [[('nosamp',), ('nosamp', 'trough')]], eval_pipeline,
                                describe='the same with return_samples=False'))
    else:
        al = S.alphabet(6, seed, extra=2)
        out.append(ProductSpace('W(6,5)xcentring', S.word_dims(S.alphabet(6), 5) + [opts], eval_pipeline, bounds={'letters': S.alphabet(6)}))
        opts = opts + [('b5',), ('trough', 'nc2'), ('dc5',), ('trough', 'x1024')]
        out.append(ProductSpace('W(8,5)xopts', S.word_dims(al, 5) + [opts], eval_pipeline, bounds={'letters': al}))
        out.append(ProductSpace('W(6,6)xcentring', S.word_dims(S.alphabet(6), 6) + [opts[:2]], eval_pipeline,
                                bounds={'letters': S.alphabet(6)}))
    return out
