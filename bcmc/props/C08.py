"""C08 - minimum-run filter: every boolean array up to a length bound (binary prefix tree, every
node is a case) x every min_n_cycles in {0..len+1} (+ two non-integer values), against a
run-length reference; plus idempotence and mirror symmetry on the real function."""
import numpy as np

from bcmc.explore import Space, OK, VIOL
from bcmc.ref.runs import runs, min_run_filter

LEVEL = 'model_checking'
RULE = ('binary prefix tree of boolean arrays, each node (array) evaluated for every min_n_cycles in '
        '0..len+1 and 1.5, 2.5; non-trivial = array with >=2 runs of different length; distinct = '
        'distinct (array, kept-run pattern over all m) outcomes')
ASSUMPTIONS = ['inputs are numpy bool arrays passed as fresh copies (the function works in place, '
               'which the property does not forbid)']


class BoolTree(Space):
    def __init__(self, n):
        self.n = n
        self.name = 'bool-arrays<=%d' % n
        self.split_depth = min(8, n)
        self.describe = 'all boolean arrays of length 0..%d x all min_n_cycles' % n

    def children(self, node):
        return [node + (0,), node + (1,)] if len(node) < self.n else []

    def is_case(self, node):
        return True

    def bounds(self):
        return {'max_len': self.n, 'min_n_cycles': '0..len+1, 1.5, 2.5'}

    def evaluate(self, case):
        from bycycle.burst.utils import check_min_burst_cycles
        bits = [bool(b) for b in case]
        n = len(bits)
        outs = []
        ms = list(range(0, n + 2)) + [1.5, 2.5, np.uint8(0), np.int64(2), np.float32(1.5)]
        for m in ms:
            arr = np.array(bits, dtype=bool)
            got = check_min_burst_cycles(arr.copy(), min_n_cycles=m)
            exp = min_run_filter(bits, m)
            pos = check_min_burst_cycles(arr.copy(), m)          # the same call with the threshold passed positionally
            if [bool(x) for x in pos] != [bool(x) for x in got]:
                return VIOL({'kind': 'positional', 'bits': case, 'm': m}, 'check_min_burst_cycles(x, m) differs from '
                            'check_min_burst_cycles(x, min_n_cycles=m)', expected=[bool(x) for x in got],
                            observed=[bool(x) for x in pos], evals=len(ms))
            if not isinstance(got, np.ndarray) or got.shape != (n,) or [bool(x) for x in got] != exp:
                return VIOL({'kind': 'filter', 'bits': case, 'm': m}, 'min-run filter differs from run-length reference',
                            expected=exp, observed=np.asarray(got).tolist(), evals=len(ms))
            again = check_min_burst_cycles(np.array(exp, dtype=bool), min_n_cycles=m)
            if [bool(x) for x in again] != exp:
                return VIOL({'kind': 'idempotence', 'bits': case, 'm': m}, 'f(f(x)) != f(x)',
                            expected=exp, observed=np.asarray(again).tolist(), evals=len(ms))
            mir = check_min_burst_cycles(np.array(bits[::-1], dtype=bool), min_n_cycles=m)
            if [bool(x) for x in mir][::-1] != exp:
                return VIOL({'kind': 'mirror', 'bits': case, 'm': m}, 'f(x[::-1]) != f(x)[::-1]',
                            expected=exp, observed=np.asarray(mir).tolist()[::-1], evals=len(ms))
            # the same values handed in as non-contiguous views (strided, reversed, column of a 2-D array)
            big = np.zeros(2 * n + 1, dtype=bool)
            big[::2][:n] = bits
            col = np.zeros((n, 3), dtype=bool)
            col[:, 1] = bits
            rev = np.array(bits[::-1], dtype=bool)
            for name, view in (('strided', big[::2][:n]), ('column', col[:, 1]), ('reversed', rev[::-1])):
                got = check_min_burst_cycles(view, min_n_cycles=m)
                if [bool(x) for x in got] != exp:
                    return VIOL({'kind': 'layout', 'layout': name, 'bits': case, 'm': m},
                                'result differs for a %s view of the same values' % name, expected=exp,
                                observed=np.asarray(got).tolist(), evals=len(ms))
            outs.append(tuple(exp))
        lens = {e - s for s, e in runs(bits)}
        return OK(outcome=(tuple(bits), tuple(outs)), nontrivial=len(lens) >= 2, evals=len(ms) * 3,
                  sample={'kept_for_m2': min_run_filter(bits, 2)} if len(lens) >= 2 else None)


def eval_long(case):
    """Long runs: a run of exactly L next to a run of L - 1 (and L + 1), thresholds m in {L - 1, L, L + 1}: every run length
    up to the bound is tried exactly at, just below and just above the threshold."""
    from bycycle.burst.utils import check_min_burst_cycles
    L, layout = case
    runs_ = {'start': [L, 1, max(L - 1, 0)], 'end': [max(L - 1, 0), 2, L], 'both': [L + 1, 1, L, 3, max(L - 1, 0)]}[layout]
    bits = []
    for i, r in enumerate(runs_):
        bits += ([True] * r) if i % 2 == 0 else ([False] * r)
    if layout == 'both':
        bits = [False] + bits + [False]
    nev = 0
    for m in (L - 1, L, L + 1, float(L), np.int32(L), L + .5):
        if m < 0:
            continue
        nev += 1
        exp = min_run_filter(bits, m)
        got = [bool(x) for x in check_min_burst_cycles(np.array(bits, dtype=bool), min_n_cycles=m)]
        if got != exp:
            return VIOL({'kind': 'filter-long', 'L': L, 'layout': layout, 'm': repr(m)},
                        'runs of length %s with min_n_cycles=%r: filter differs from the run-length reference' % ([r for r in runs_[::2]], m),
                        expected=[int(x) for x in exp], observed=[int(x) for x in got], evals=nev)
    return OK(outcome=(L, layout), nontrivial=L >= 2, evals=nev)


def eval_callers(case):
    """The filter as its public callers apply it: detect_bursts_cycles (first / last cycle cleared BEFORE the runs are measured),
    detect_bursts_amp, and compute_features with the amplitude method (one minimum from the burst options)."""
    import pandas as pd
    from bycycle.burst import detect_bursts_cycles, detect_bursts_amp
    bits = [bool(b) for b in case]
    n = len(bits)
    thr = (.25, .5, .5, .75)
    feats = ('amp_fraction', 'amp_consistency', 'period_consistency', 'monotonicity')
    rows = [[t + .25 for t in thr] if b else [thr[0] + .25, thr[1] + .25, thr[2] + .25, thr[3] - .25] for b in bits]
    nev = 0
    for m in (0, 1, 2, 3, 4):
        df = pd.DataFrame(rows, columns=list(feats))
        kw = dict(zip([f + '_threshold' for f in feats], thr))
        got = [bool(x) for x in detect_bursts_cycles(df, min_n_cycles=m, **kw)['is_burst']]
        inner = list(bits)
        if n:
            inner[0] = False
            inner[-1] = False
        exp = min_run_filter(inner, m)
        nev += 1
        if got != exp:
            return VIOL({'kind': 'caller', 'site': 'detect_bursts_cycles', 'm': m}, 'detect_bursts_cycles: labels are not the minimum-run filter of the '
                        'qualifying cycles (first and last never qualify)', expected=exp, observed={'got': got, 'qualifying': bits}, evals=nev)
        got = [bool(x) for x in detect_bursts_amp(pd.DataFrame({'burst_fraction': [1. if b else 0. for b in bits]}), burst_fraction_threshold=1, min_n_cycles=m)['is_burst']]
        exp = min_run_filter(bits, m)
        nev += 1
        if got != exp:
            return VIOL({'kind': 'caller', 'site': 'detect_bursts_amp', 'm': m}, 'detect_bursts_amp: labels are not the minimum-run filter of burst_fraction >= threshold',
                        expected=exp, observed={'got': got, 'supra': bits}, evals=nev)
    return OK(outcome=tuple(bits), nontrivial=True, evals=nev)


def eval_pipeline_amp(case):
    """compute_features(burst_method='amp'): the labels are the minimum-run filter of burst_fraction >= threshold with the ONE minimum
    given through the burst options / the thresholds / both."""
    from bycycle.features import compute_features
    from bcmc import spaces as S
    from bcmc.pipe import precondition
    letters, (tm, bm) = case[:-1], case[-1]
    sig = S.word_signal(''.join(letters))
    if not precondition(sig, S.resolve(()))[0]:
        return OK(outcome=None, nontrivial=False)
    thr, bk = {'burst_fraction_threshold': .5}, {'amp_threshes': (.5, 1.)}
    if tm is not None:
        thr['min_n_cycles'] = tm
    if bm is not None:
        bk['min_n_cycles'] = bm
    m = bm if bm is not None else (tm if tm is not None else 3)
    df = compute_features(sig, 64, (6, 14), burst_method='amp', threshold_kwargs=thr, burst_kwargs=bk)
    exp = min_run_filter([v >= .5 for v in df['burst_fraction']], m)
    got = [bool(x) for x in df['is_burst']]
    if got != exp:
        return VIOL({'kind': 'caller', 'site': 'compute_features(amp)', 'route': [tm, bm]}, 'labels are not the minimum-run filter (minimum %s) of burst_fraction >= .5' % m,
                    expected=exp, observed={'got': got, 'burst_fraction': df['burst_fraction'].tolist()})
    return OK(outcome=(''.join(letters), tm, bm, tuple(got)), nontrivial=any(got) and not all(got))


RUN_PATTERNS = [((1, 3, 2, 4), (1, 2)), ((2, 1), (1,)), ((3, 1, 1, 5, 2), (2, 1, 3)), ((1,), (1,)), ((4, 2, 6), (1, 1, 2))]


def eval_many(case):
    """MANY runs: R runs whose lengths cycle through a pattern (all lengths around the thresholds), separated by cycling gaps -
    counters, run numbering and vectorised shortcuts keyed on the NUMBER of runs (128, 256, 512, 1024, > 100 short runs)."""
    from bycycle.burst.utils import check_min_burst_cycles
    R, pi, tail = case
    lens, gaps = RUN_PATTERNS[pi]
    bits = [False] if tail != 'touch-start' else []
    for r in range(R):
        bits += [True] * lens[r % len(lens)] + [False] * gaps[r % len(gaps)]
    if tail == 'long-last':
        bits += [True] * 7 + [False]
    elif tail == 'touch-end':
        bits = bits[:-gaps[(R - 1) % len(gaps)]]
    nev = 0
    for m in (2, 3, 4, 5):
        nev += 1
        exp = min_run_filter(bits, m)
        got = [bool(x) for x in check_min_burst_cycles(np.array(bits, dtype=bool), min_n_cycles=m)]
        if got != exp:
            bad = [i for i, (a, b) in enumerate(zip(got, exp)) if a != b]
            return VIOL({'kind': 'filter-many-runs', 'pattern': pi, 'tail': tail, 'm': m},
                        '%d runs (pattern %s), min_n_cycles=%d: filter differs from the run-length reference at cycles %s...' % (R, lens, m, bad[:6]),
                        observed={'first_bad_cycle': bad[0], 'runs_before': sum(1 for s_, e_ in runs(bits) if e_ <= bad[0])}, evals=nev)
    return OK(outcome=(R, pi, tail), nontrivial=True, evals=nev)


def spaces(tier, seed):
    from bcmc.explore import ProductSpace
    Rs = sorted(set(list(range(96, 140)) + list(range(250, 264)) + list(range(508, 518)) + list(range(1020, 1030))
                    + ([] if tier == 'quick' else list(range(1, 96)) + list(range(140, 250)) + list(range(2040, 2056)) + list(range(4090, 4100)))))
    many = ProductSpace('many-runs', [Rs, list(range(len(RUN_PATTERNS))), ['plain', 'long-last', 'touch-end', 'touch-start']], eval_many,
                        describe='%d run counts between 96 and %d x %d length/gap patterns x 4 endings x thresholds 2..5' % (len(Rs), Rs[-1], len(RUN_PATTERNS)))
    Lmax = 260 if tier == 'quick' else 1200
    return [BoolTree(12 if tier == 'quick' else 16),
            ProductSpace('exact-runs<=%d' % Lmax, [list(range(1, Lmax + 1)), ['start', 'end', 'both']], eval_long,
                         describe='for every run length L <= %d: runs of L-1, L, L+1 at the start / end / inside x thresholds L-1, L, L+1, L+.5' % Lmax),
            many,
            ProductSpace('callers-bool<=9', [[0, 1]] * 9, eval_callers, min_len=1,
                         describe='every boolean pattern of 1..9 cycles through detect_bursts_cycles and detect_bursts_amp x min_n_cycles 0..4'),
            ProductSpace('callers-pipeline-W(3,6)', [['a', 'd', 'z']] * 6 + [[(None, 2), (None, 4), (2, 4), (4, 1), (1, None), (None, None)]], eval_pipeline_amp,
                         describe='6-letter words through compute_features(amp) x 6 routes of the minimum')]
