"""C09 - trough-centred analysis of x == peak-centred analysis of -x under the documented renaming.

Differential and exact (negation commutes with IEEE arithmetic).  Space: words x option sets (both burst
methods, filter / boundary / band deviations)."""
import numpy as np

from bcmc.explore import ProductSpace, OK, VIOL, SKIP
from bcmc import spaces as S
from bcmc.pipe import precondition, run_cf
from bcmc.ref.table import diff_tables, table_hash

LEVEL = 'model_checking'
RULE = ('product tree letters -> option set; each leaf = two pipeline calls (x trough-centred, -x peak-centred); '
        'non-trivial = table whose time_rdsym is not symmetric (some value != 0.5) and which has a burst label; '
        'distinct = distinct table hashes')
ASSUMPTIONS = ['column order is not compared', 'hand-written column map (peak<->trough, rise<->decay, extremum '
               'voltages negated, symmetry fractions 1 - v)']

RENAME = {'sample_peak': 'sample_trough', 'sample_last_trough': 'sample_last_peak', 'sample_next_trough': 'sample_next_peak',
          'sample_zerox_rise': 'sample_zerox_decay', 'sample_zerox_decay': 'sample_zerox_rise',
          'sample_last_zerox_decay': 'sample_last_zerox_rise',
          'time_rise': 'time_decay', 'time_decay': 'time_rise', 'volt_rise': 'volt_decay', 'volt_decay': 'volt_rise',
          'time_peak': 'time_trough', 'time_trough': 'time_peak', 'volt_peak': 'volt_trough', 'volt_trough': 'volt_peak'}


def mirror(df_peak_of_neg):
    d = df_peak_of_neg.rename(columns=RENAME).copy()
    d['volt_peak'] = -d['volt_peak']
    d['volt_trough'] = -d['volt_trough']
    d['time_rdsym'] = 1 - d['time_rdsym']
    d['time_ptsym'] = 1 - d['time_ptsym']
    return d


def copy_kw(d):
    import copy
    return copy.deepcopy(d)


def evaluate(case):
    letters, devs = case[:-1], tuple(case[-1])
    o = S.resolve(devs)
    o['center_extrema'] = 'trough'
    if isinstance(letters[0], str):
        w = ''.join(letters)
        sig = S.make_signal(w, o)
    else:       # free small-integer samples embedded between two regular cycles on either side
        w = None
        sig = np.concatenate([S.word_signal('aa'), np.array(letters, float), S.word_signal('aa')])
    ok, why, ref = precondition(np.asarray(sig, dtype=float), o)
    if not ok:
        return SKIP(why)
    sgn = {'method': o['burst_method'], 'devs': list(devs)}
    # a user renamed an unrelated table with the public helper before (without sample columns): must not affect later analyses
    import pandas as pd
    from bycycle.utils import rename_extrema_df
    rename_extrema_df('trough', pd.DataFrame({k: [1.] for k in ('time_peak', 'time_trough', 'volt_peak', 'volt_trough', 'time_rise',
                                                                'time_decay', 'volt_rise', 'volt_decay', 'time_rdsym', 'time_ptsym')}),
                      return_samples=False)
    dt = run_cf(sig, o, return_samples=True)
    o2 = dict(o)
    o2['center_extrema'] = 'peak'
    dp = run_cf(-sig, o2, return_samples=True)
    dd = diff_tables(dt, mirror(dp), exact=True)
    if dd:
        return VIOL(dict(sgn, kind='mirror'), 'trough-centred table is not the mirrored peak-centred table of -x: ' + dd)
    nev = 2
    # the same comparison with return_samples=False on both sides (sample columns dropped from the mirror map)
    dtn = run_cf(sig, o, return_samples=False)
    dpn = run_cf(-sig, o2, return_samples=False)
    nev += 2
    dd = diff_tables(dtn, mirror(dpn), exact=True) or diff_tables(dtn, dt[[c for c in dt.columns if not c.startswith('sample_')]], exact=True)
    if dd:
        return VIOL(dict(sgn, kind='mirror', return_samples=False), 'with return_samples=False the trough-centred table is not the mirror '
                    'of the peak-centred table of -x (or differs from the table with samples): ' + dd, evals=nev)
    if o['burst_method'] == 'cycles':
        from bycycle.burst import recompute_edges
        from bcmc.ref.burst import CYC_DEFAULTS
        thr = S.call_kwargs(o).get('threshold_kwargs') or dict(CYC_DEFAULTS)      # ('nothr': thresholds omitted -> documented defaults)
        red = {k: (max(v - .1, 0) if k.endswith('threshold') else v) for k, v in thr.items()}
        et, ep = recompute_edges(dt, dict(red)), recompute_edges(dp, dict(red))
        nev += 2
        dd = diff_tables(et, mirror(ep), exact=True)
        if dd:
            return VIOL(dict(sgn, kind='mirror-edges'), 'after recompute_edges the trough-centred table is not the mirror of the '
                        'peak-centred table of -x: ' + dd, evals=nev)
    if True:
        # ONE set of option objects (an empty burst-option dict included) shared by the peak-centred and the trough-centred call, as a
        # user comparing the two centrings would write it: peak first, then trough, then peak again
        from bycycle.features import compute_features
        shared = S.call_kwargs(o)
        shared.pop('center_extrema', None)
        shared['return_samples'] = True
        shared.setdefault('burst_kwargs', {})
        shared.setdefault('find_extrema_kwargs', {'filter_kwargs': {'n_cycles': 3}})
        fs_, fr_ = S.call_fs(o)
        sp = compute_features(-np.array(sig, float), fs_, fr_, center_extrema='peak', **shared)
        st = compute_features(np.array(sig, float), fs_, fr_, center_extrema='trough', **shared)
        sp2 = compute_features(-np.array(sig, float), fs_, fr_, center_extrema='peak', **shared)
        nev += 3
        dd = diff_tables(st, mirror(sp), exact=True) or diff_tables(st, mirror(sp2), exact=True)
        if dd:
            return VIOL(dict(sgn, kind='mirror', shared_options=True), 'with one set of option objects shared by both calls (peak, trough, peak) the '
                        'trough-centred table is not the mirror of the peak-centred table of -x: ' + dd, evals=nev)
    if devs in ((), ('amp',)) and isinstance(w, str):
        # analysis objects WITHOUT sample columns that were loaded with an earlier table before being fitted: the centring stays
        # the one the object was configured with
        from bycycle import Bycycle
        kwo = S.call_kwargs(o)
        okw = dict(burst_method=kwo['burst_method'], thresholds=kwo.get('threshold_kwargs'), burst_kwargs=kwo.get('burst_kwargs'), return_samples=False)
        bt, bp = Bycycle(center_extrema='trough', **copy_kw(okw)), Bycycle(center_extrema='peak', **copy_kw(okw))
        bt.load(dtn.copy(), np.array(sig, float), o['fs'], o['f_range'])
        bp.load(dpn.copy(), -np.array(sig, float), o['fs'], o['f_range'])
        bt.fit(np.array(sig, float), o['fs'], o['f_range'])
        bp.fit(-np.array(sig, float), o['fs'], o['f_range'])
        nev += 2
        dd = diff_tables(bt.df_features, mirror(bp.df_features), exact=True) or diff_tables(bt.df_features, dtn, exact=True)
        if dd:
            return VIOL(dict(sgn, kind='mirror-objects', return_samples=False), 'Bycycle objects (return_samples=False) loaded, then fitted: the trough-centred '
                        'table is not the mirror of the peak-centred table of -x (or not the functional table): ' + dd, evals=nev)
    if devs in ((), ('amp',), ('b5',), ('thr1',)) and len(sig) % 2 == 0 and len(sig) // 2 >= 16:
        # the same relation for the epoch tables of a 2-D array analysed as one recording
        import contextlib, io
        from bycycle.group import compute_features_2d
        kw = S.call_kwargs(o)
        kw.pop('return_samples', None)
        kp = dict(kw, center_extrema='peak')
        with contextlib.redirect_stdout(io.StringIO()):
            e_t = compute_features_2d(np.array(sig, float).reshape(2, -1), o['fs'], o['f_range'], kw, axis=None, return_samples=True)
            e_p = compute_features_2d(-np.array(sig, float).reshape(2, -1), o['fs'], o['f_range'], kp, axis=None, return_samples=True)
        nev += 2
        # ... and for per-signal option LISTS of the 2-D function (each signal analysed on its own)
        from bcmc import sched
        two = np.array([np.array(sig, float), np.array(sig, float)[::-1].copy()])
        with sched.patched_pool(None), contextlib.redirect_stdout(io.StringIO()):
            l_t = compute_features_2d(two, o['fs'], o['f_range'], [dict(kw), dict(kw)], axis=0, return_samples=True, n_jobs=1)
            l_p = compute_features_2d(-two, o['fs'], o['f_range'], [dict(kp), dict(kp)], axis=0, return_samples=True, n_jobs=1)
        nev += 2
        for e in range(2):
            dd = diff_tables(l_t[e], mirror(l_p[e]), exact=True)
            if dd:
                return VIOL(dict(sgn, kind='mirror-list', first=e == 0), 'signal %d of compute_features_2d(axis=0, per-signal option list): the '
                            'trough-centred table is not the mirror of the peak-centred table of -x: %s' % (e, dd), evals=nev)
        for e in range(2):
            dd = diff_tables(e_t[e], mirror(e_p[e]), exact=True)
            if dd:
                return VIOL(dict(sgn, kind='mirror-epochs', epoch0=e == 0), 'epoch %d of compute_features_2d(axis=None): the trough-centred '
                            'table is not the mirror of the peak-centred table of -x: %s' % (e, dd), evals=nev)
    nt = bool(dt['is_burst'].any()) and bool((dt['time_rdsym'] != .5).any())
    return OK(outcome=table_hash(dt), nontrivial=nt, evals=nev,
              sample={'is_burst': dt['is_burst'].tolist(), 'time_rdsym': dt['time_rdsym'].tolist()} if nt else None)


OPTS_Q = [(), ('amp',), ('b5',), ('nc2',), ('amp', 'ns.5'), ('thr1',), ('amp', 'thr1'), ('dc5',), ('band5_12',),
          ('int',), ('int16big',), ('int16big', 'amp'), ('driftdn',)]


def spaces(tier, seed):
    al = S.alphabet(6 if tier != 'quick' else 5)
    out = [ProductSpace('W(3,7)-edges', S.word_dims(['a', 'd', 'n'], 7) + [[()]], evaluate,
                        describe='7-letter words (bursts with edges): mirror also after recompute_edges'),
           ProductSpace('W(%d,5)xopts' % len(al), S.word_dims(al, 5) + [OPTS_Q[:2]], evaluate, bounds={'letters': al}),
           ProductSpace('W(4,5)xopts', S.word_dims(S.alphabet(4), 5) + [OPTS_Q[2:]], evaluate,
                        bounds={'letters': S.alphabet(4), 'option_sets': len(OPTS_Q[2:])})]
    ne = 7 if tier == 'quick' else 9
    out.append(ProductSpace('embedded{-1,0,1}^%d' % ne, [[-1, 0, 1]] * ne + [[()]], evaluate,
                            describe="'aa' + every such run of samples over {-1,0,1} + 'aa': low-amplitude stretches full of ties (extrema of equal "
                                     'voltage at both ends of a flank, plateaus, flat flanks)'))
    out.append(ProductSpace('embedded{-2,0,1,3}^5', [[-2, 0, 1, 3]] * 5 + [[(), ('amp',)]], evaluate,
                            describe="'aa' + every 5 samples over {-2,0,1,3} + 'aa' x both burst methods"))
    from bcmc.explore import ListSpace
    out.append(ListSpace('long-recordings', S.long_cases(['@A', '@B', '@C', '@D'], [(), ('amp',)]), evaluate,
                         describe='long real-valued recordings (660 / 1430 / 300 / 200 cycles) x both burst methods'))
    if tier != 'quick':
        al = S.alphabet(6, seed, extra=2)
        devs = [d for d in S.option_sets(2, [k for k in S.DEVIATIONS if k not in ('trough', 'neg', 'int16big')])]
        out += [ProductSpace('W(4,8)-edges', S.word_dims(['a', 'd', 'n', 'b'], 8) + [[()]], evaluate),
                ProductSpace('W(8,5)xcore', S.word_dims(al, 5) + [[(), ('amp',)]], evaluate, bounds={'letters': al}),
                ProductSpace('W(3,5)x2dev', S.word_dims(S.alphabet(3), 5) + [devs], evaluate,
                             bounds={'option_sets': len(devs), 'max_deviations': 2})]
    return out
