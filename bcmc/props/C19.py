"""C19 - invalid settings raise ValueError, valid combinations are accepted.

Spaces: (i) the complete grid array shape x axis x option-list shape through check_kwargs_shape, and
through the real compute_features_2d / compute_features_3d / BycycleGroup.fit for every accepted cell
and every rejected cell; (ii) every documented scalar parameter at {just outside, on, just inside} both
ends of its range through every public entry point that takes it; every enumerated option with an
unknown value; wrong dimensionality; plot before fit.  Oracle: hand-written decision table."""
import itertools

import numpy as np

from bcmc.explore import ListSpace, OK, VIOL, SKIP
from bcmc import spaces as S

LEVEL = 'model_checking'
RULE = ('complete configuration grid (one case per cell) + one case per (entry point, parameter, probe value); '
        'non-trivial = cell that is rejected, or accepted with a per-signal option list; distinct = distinct cells')
ASSUMPTIONS = ['amp_threshes lower bound exactly 0 is not probed (neurodsp itself fails on an all-bursting signal)', 'which layer raises the ValueError is not prescribed', 'progress is not validated for axis=None (it is unused there)',
               'decision table written from the docstrings and check_kwargs_shape\'s own error text']

SHAPES = [(2,), (3,), (1,), (2, 3), (3, 2), (2, 2), (1, 3), (3, 1), (1, 1)]      # leading dims; last dim = samples
AXES = [0, 1, None, (0, 1), 2, 'x']
KSHAPES = [None, 'dict'] + [(k,) for k in (1, 2, 3)] + [(k, m) for k in (1, 2, 3) for m in (1, 2, 3)] + [(2, 3, 1)]
WORDS = ['aabeaa', 'bbadab', 'eadaba', 'daabea', 'abdeab', 'beadaa', 'aadbea', 'ebaada', 'dabbae']
THR = dict(S.T0)


def mklist(kshape, as_array):
    if kshape is None:
        return None
    if kshape == 'dict':
        return {'threshold_kwargs': dict(THR)}
    a = np.empty(kshape, dtype=object)
    for idx in np.ndindex(*kshape):
        a[idx] = {'threshold_kwargs': dict(THR)}
    return a if as_array else a.tolist()


def expected(lead, axis, kshape):
    """'ok' or 'VE' for the real group call."""
    nd = len(lead) + 1
    if nd == 2:
        if axis not in (0, None) or isinstance(axis, bool):
            return 'VE'
        if kshape in (None, 'dict'):
            return 'ok'
        return 'ok' if kshape == (lead[0],) else 'VE'
    if not (axis == 0 or axis == 1 or axis == (0, 1)) or axis is None:
        return 'VE'
    if kshape in (None, 'dict'):
        return 'ok'
    if axis == 0:
        return 'ok' if kshape == (lead[0],) else 'VE'
    if axis == 1:
        return 'ok' if kshape == (lead[1],) else 'VE'
    return 'ok' if kshape == (lead[0], lead[1]) else 'VE'


def expected_checker(lead, axis, kshape):
    """check_kwargs_shape alone: dict/None never rejected (axis validity is the group functions' job)."""
    if kshape in (None, 'dict'):
        return 'ok'
    return expected(lead, axis, kshape)


def sigs_for(lead):
    n = int(np.prod(lead))
    arr = np.array([S.word_signal(WORDS[i % len(WORDS)]) for i in range(n)])
    return arr.reshape(tuple(lead) + (arr.shape[-1],))


def eval_cell(case):
    from bycycle.group.utils import check_kwargs_shape
    from bycycle.group import compute_features_2d, compute_features_3d
    from bycycle import BycycleGroup
    lead, axis, kshape = case
    lead = tuple(lead)
    axis = tuple(axis) if isinstance(axis, list) else axis
    kshape = tuple(kshape) if isinstance(kshape, list) else kshape
    sigs = sigs_for(lead)
    nev = 0
    sgn = {'site': 'check_kwargs_shape', 'ndim': len(lead) + 1, 'axis': repr(axis), 'kwargs_ndim': 0 if kshape in (None, 'dict') else len(kshape)}
    exp = expected_checker(lead, axis, kshape)
    try:
        check_kwargs_shape(sigs, mklist(kshape, True), axis)
        got = 'ok'
    except ValueError:
        got = 'VE'
    except Exception as e:      # noqa
        got = type(e).__name__
    nev += 1
    if got != exp:
        return VIOL(dict(sgn, expected=exp, got=got), 'check_kwargs_shape: expected %s, got %s' % (exp, got),
                    observed={'shape': lead, 'axis': axis, 'kwargs_shape': kshape}, evals=nev)
    # the real group call (list passed as a plain nested list, as a user would)
    exp = expected(lead, axis, kshape)
    fn = compute_features_2d if len(lead) == 1 else compute_features_3d
    sgn = dict(sgn, site=fn.__name__)
    try:
        res = fn(sigs, 64, (6, 14), compute_features_kwargs=mklist(kshape, False), axis=axis, n_jobs=1)
        got = 'ok'
    except ValueError:
        got, res = 'VE', None
    except Exception as e:      # noqa
        got, res = type(e).__name__, None
    nev += 1
    if got != exp:
        return VIOL(dict(sgn, expected=exp, got=got), '%s: expected %s, got %s' % (fn.__name__, exp, got),
                    observed={'shape': lead, 'axis': axis, 'kwargs_shape': kshape}, evals=nev)
    if got == 'ok':
        if not isinstance(res, list) or len(res) != lead[0] or (len(lead) == 2 and any(len(r) != lead[1] for r in res)):
            return VIOL(dict(sgn, kind='result-shape'), 'accepted call returned a result of the wrong shape',
                        observed={'shape': lead, 'axis': axis, 'kwargs_shape': kshape}, evals=nev)
    # BycycleGroup.fit: only a shared option set can be given; axis validity must agree
    if kshape is None:
        exp = expected(lead, axis, None)
        try:
            BycycleGroup(thresholds=dict(THR)).fit(sigs, 64, (6, 14), axis=axis, n_jobs=1)
            got = 'ok'
        except ValueError:
            got = 'VE'
        except Exception as e:      # noqa
            got = type(e).__name__
        nev += 1
        if got != exp:
            return VIOL(dict(sgn, site='BycycleGroup.fit', expected=exp, got=got), 'BycycleGroup.fit: expected %s, got %s' % (exp, got),
                        observed={'shape': lead, 'axis': axis}, evals=nev)
    return OK(outcome=(lead, repr(axis), kshape, exp), nontrivial=exp == 'VE' or kshape not in (None, 'dict'), evals=nev)


# ---- scalar / enumerated parameters -----------------------------------------------------------------
SIG = S.word_signal('aabeaadaab')


def _table(method='cycles', centre='peak'):
    from bycycle.features import compute_features
    kw = {'threshold_kwargs': dict(S.T0)} if method == 'cycles' else {'threshold_kwargs': dict(S.TA0), 'burst_kwargs': {'amp_threshes': (.5, 1.)}}
    return compute_features(SIG.copy(), 64, (6, 14), center_extrema=centre, burst_method=method, **kw)


def entry_points():
    """name -> callable(**params) building the call with one overridden parameter."""
    from bycycle.features import compute_features, compute_shape_features, compute_cyclepoints, compute_burst_features
    from bycycle.features.shape import compute_band_amp
    from bycycle.features.burst import (compute_burst_fraction, compute_amp_consistency, compute_period_consistency)
    from bycycle.cyclepoints import find_extrema
    from bycycle.burst import detect_bursts_cycles, detect_bursts_amp, recompute_edges
    from bycycle.burst.utils import check_min_burst_cycles, recompute_edge
    from bycycle.utils import limit_df, limit_signal
    from bycycle.group import compute_features_2d, compute_features_3d
    from bycycle.group.utils import progress_bar
    from bycycle.plts import (plot_burst_detect_summary, plot_burst_detect_param, plot_cyclepoints_df, plot_cyclepoints_array)
    from bycycle import Bycycle, BycycleGroup
    sig = SIG.copy()
    sigs2 = np.array([S.word_signal('aabeaa'), S.word_signal('bbadab')])
    sigs3 = sigs2[None]
    E = {}
    E['compute_features.fs'] = lambda v: compute_features(sig, v, (6, 14), threshold_kwargs=dict(S.T0))
    E['compute_shape_features.fs'] = lambda v: compute_shape_features(sig, v, (6, 14))
    E['compute_cyclepoints.fs'] = lambda v: compute_cyclepoints(sig, v, (6, 14))
    E['find_extrema.fs'] = lambda v: find_extrema(sig, v, (6, 14))
    E['compute_band_amp.fs'] = lambda v: compute_band_amp(_table(), sig, v, (6, 14))
    E['compute_burst_fraction.fs'] = lambda v: compute_burst_fraction(_table(), sig, v, (6, 14), amp_threshes=(.5, 1.))
    E['limit_df.fs'] = lambda v: limit_df(_table(), v, start=0, stop=1)
    E['Bycycle.fit.fs'] = lambda v: Bycycle(thresholds=dict(S.T0)).fit(sig, v, (6, 14))
    E['BycycleGroup.fit.fs'] = lambda v: BycycleGroup(thresholds=dict(S.T0)).fit(sigs2, v, (6, 14), n_jobs=1)
    E['compute_features_2d.fs'] = lambda v: compute_features_2d(sigs2, v, (6, 14), {'threshold_kwargs': dict(S.T0)}, n_jobs=1)
    E['compute_features_3d.fs'] = lambda v: compute_features_3d(sigs3, v, (6, 14), {'threshold_kwargs': dict(S.T0)}, n_jobs=1)
    E['plot_burst_detect_summary.fs'] = lambda v: plot_burst_detect_summary(_table(), sig, v, dict(S.T0))
    E['plot_burst_detect_param.fs'] = lambda v: plot_burst_detect_param(_table(), sig, v, 'monotonicity', .6)
    E['plot_cyclepoints_df.fs'] = lambda v: plot_cyclepoints_df(_table(), sig, v)
    E['plot_cyclepoints_array.fs'] = lambda v: plot_cyclepoints_array(sig, v, peaks=np.array([2, 10]), troughs=np.array([6, 14]))
    for k in ('amp_fraction', 'amp_consistency', 'period_consistency', 'monotonicity'):
        kk = k + '_threshold'
        E['detect_bursts_cycles.' + kk] = (lambda kk: lambda v: detect_bursts_cycles(_table().drop(columns=['is_burst']), **{kk: v}))(kk)
        E['compute_features.' + kk] = (lambda kk: lambda v: compute_features(sig, 64, (6, 14), threshold_kwargs={kk: v}))(kk)
        E['Bycycle.fit.' + kk] = (lambda kk: lambda v: Bycycle(thresholds={kk: v}).fit(sig, 64, (6, 14)))(kk)
        E['Bycycle.fit.shorthand.' + k] = (lambda k: lambda v: Bycycle(thresholds={k: v}).fit(sig, 64, (6, 14)))(k)
        E['recompute_edges.' + kk] = (lambda kk: lambda v: recompute_edges(_table(), dict(S.T0, **{kk: v})))(kk)
        E['compute_features_2d.' + kk] = (lambda kk: lambda v: compute_features_2d(sigs2, 64, (6, 14), {'threshold_kwargs': {kk: v}}, n_jobs=1))(kk)
    E['detect_bursts_amp.burst_fraction_threshold'] = lambda v: detect_bursts_amp(_table('amp').drop(columns=['is_burst']), burst_fraction_threshold=v)
    E['compute_features.burst_fraction_threshold'] = lambda v: compute_features(sig, 64, (6, 14), burst_method='amp', threshold_kwargs={'burst_fraction_threshold': v})
    E['Bycycle.fit.burst_fraction_threshold'] = lambda v: Bycycle(burst_method='amp', thresholds={'burst_fraction_threshold': v}).fit(sig, 64, (6, 14))
    E['check_min_burst_cycles.min_n_cycles'] = lambda v: check_min_burst_cycles(np.array([True, True, False]), min_n_cycles=v)
    E['detect_bursts_cycles.min_n_cycles'] = lambda v: detect_bursts_cycles(_table().drop(columns=['is_burst']), min_n_cycles=v)
    E['detect_bursts_amp.min_n_cycles'] = lambda v: detect_bursts_amp(_table('amp').drop(columns=['is_burst']), min_n_cycles=v)
    E['compute_features.cycles.min_n_cycles'] = lambda v: compute_features(sig, 64, (6, 14), threshold_kwargs={'min_n_cycles': v})
    E['compute_features.amp.thr.min_n_cycles'] = lambda v: compute_features(sig, 64, (6, 14), burst_method='amp', threshold_kwargs={'min_n_cycles': v})
    E['compute_features.amp.bk.min_n_cycles'] = lambda v: compute_features(sig, 64, (6, 14), burst_method='amp', threshold_kwargs={}, burst_kwargs={'min_n_cycles': v})
    E['Bycycle.fit.min_n_cycles'] = lambda v: Bycycle(thresholds={'min_n_cycles': v}).fit(sig, 64, (6, 14))
    E['compute_burst_fraction.amp_threshes'] = lambda v: compute_burst_fraction(_table(), sig, 64, (6, 14), amp_threshes=v)
    E['compute_features.amp_threshes'] = lambda v: compute_features(sig, 64, (6, 14), burst_method='amp', threshold_kwargs={}, burst_kwargs={'amp_threshes': v})
    E['Bycycle.fit.amp_threshes'] = lambda v: Bycycle(burst_method='amp', thresholds=dict(S.TA0), burst_kwargs={'amp_threshes': v}).fit(sig, 64, (6, 14))
    E['compute_shape_features.n_cycles'] = lambda v: compute_shape_features(sig, 64, (6, 14), n_cycles=v)
    E['compute_band_amp.n_cycles'] = lambda v: compute_band_amp(_table(), sig, 64, (6, 14), n_cycles=v)
    # enumerated options
    E['compute_features.center_extrema'] = lambda v: compute_features(sig, 64, (6, 14), center_extrema=v, threshold_kwargs=dict(S.T0))
    E['compute_shape_features.center_extrema'] = lambda v: compute_shape_features(sig, 64, (6, 14), center_extrema=v)
    E['Bycycle.fit.center_extrema'] = lambda v: Bycycle(center_extrema=v, thresholds=dict(S.T0)).fit(sig, 64, (6, 14))
    E['compute_features.burst_method'] = lambda v: compute_features(sig, 64, (6, 14), burst_method=v, threshold_kwargs=dict(S.T0))
    E['compute_burst_features.burst_method'] = lambda v: compute_burst_features(compute_shape_features(sig, 64, (6, 14)), sig, burst_method=v)
    E['Bycycle.fit.burst_method'] = lambda v: Bycycle(burst_method=v, thresholds=dict(S.T0)).fit(sig, 64, (6, 14))
    E['find_extrema.first_extrema'] = lambda v: find_extrema(sig, 64, (6, 14), first_extrema=v)
    E['find_extrema.nopad.first_extrema'] = lambda v: find_extrema(sig, 64, (6, 14), first_extrema=v, pad=False)
    E['find_extrema.boundary5.first_extrema'] = lambda v: find_extrema(sig, 64, (6, 14), first_extrema=v, boundary=5, filter_kwargs={'n_cycles': 2})
    E['BycycleGroup.fit.min_n_cycles'] = lambda v: BycycleGroup(thresholds={'min_n_cycles': v}).fit(sigs2, 64, (6, 14), n_jobs=1)
    E['Bycycle.fit.amp.min_n_cycles'] = lambda v: Bycycle(burst_method='amp', thresholds={'burst_fraction_threshold': .5, 'min_n_cycles': v}).fit(sig, 64, (6, 14))
    E['Bycycle.fit.amp.bk.min_n_cycles'] = lambda v: Bycycle(burst_method='amp', burst_kwargs={'min_n_cycles': v}).fit(sig, 64, (6, 14))
    E['compute_features.find_extrema_kwargs.first_extrema'] = lambda v: compute_features(sig, 64, (6, 14), threshold_kwargs=dict(S.T0), find_extrema_kwargs={'first_extrema': v})
    E['compute_amp_consistency.direction'] = lambda v: compute_amp_consistency(_table(), direction=v)
    E['compute_period_consistency.direction'] = lambda v: compute_period_consistency(_table(), direction=v)
    E['recompute_edge.direction'] = lambda v: recompute_edge(_table(), 2, v)
    # the same settings on degenerate inputs (tables of 1 / 2 rows, where per-cycle loops do not run)
    E['compute_amp_consistency.rows2.direction'] = lambda v: compute_amp_consistency(_table().iloc[:2].reset_index(drop=True), direction=v)
    E['compute_amp_consistency.rows1.direction'] = lambda v: compute_amp_consistency(_table().iloc[:1], direction=v)
    E['compute_period_consistency.rows2.direction'] = lambda v: compute_period_consistency(_table().iloc[:2].reset_index(drop=True), direction=v)
    E['compute_period_consistency.rows1.direction'] = lambda v: compute_period_consistency(_table().iloc[1:2], direction=v)
    E['detect_bursts_cycles.rows1.monotonicity_threshold'] = lambda v: detect_bursts_cycles(_table().iloc[:1].copy(), monotonicity_threshold=v)
    E['detect_bursts_cycles.rows0.amp_fraction_threshold'] = lambda v: detect_bursts_cycles(_table().iloc[:0].copy(), amp_fraction_threshold=v)
    E['detect_bursts_amp.rows1.burst_fraction_threshold'] = lambda v: detect_bursts_amp(_table('amp').iloc[:1].copy(), burst_fraction_threshold=v)
    E['check_min_burst_cycles.empty.min_n_cycles'] = lambda v: check_min_burst_cycles(np.zeros(0, dtype=bool), min_n_cycles=v)
    E['check_min_burst_cycles.allfalse.min_n_cycles'] = lambda v: check_min_burst_cycles(np.zeros(4, dtype=bool), min_n_cycles=v)
    E['progress_bar.progress'] = lambda v: list(progress_bar(iter([1, 2]), v, 2))
    E['compute_features_2d.progress'] = lambda v: compute_features_2d(sigs2, 64, (6, 14), {'threshold_kwargs': dict(S.T0)}, n_jobs=1, progress=v)
    E['compute_features_3d.progress'] = lambda v: compute_features_3d(sigs3, 64, (6, 14), {'threshold_kwargs': dict(S.T0)}, n_jobs=1, progress=v)
    E['compute_features_3d.01.progress'] = lambda v: compute_features_3d(sigs3, 64, (6, 14), {'threshold_kwargs': dict(S.T0)}, axis=(0, 1), n_jobs=1, progress=v)
    E['BycycleGroup.fit.progress'] = lambda v: BycycleGroup(thresholds=dict(S.T0)).fit(sigs2, 64, (6, 14), n_jobs=1, progress=v)
    # dimensionality
    # singleton-axis shapes (what file readers return for one channel) are still the wrong dimensionality
    E['Bycycle.fit.shape'] = lambda v: Bycycle(thresholds=dict(S.T0)).fit(sig[:48].reshape(tuple(v)), 64, (6, 14))
    E['BycycleGroup.fit.shape'] = lambda v: BycycleGroup(thresholds=dict(S.T0)).fit(sig[:48].reshape(tuple(v)), 64, (6, 14), n_jobs=1)
    # many signals per worker (a size-keyed dispatch path must validate the same settings)
    many2 = np.array([S.word_signal('aabeaa') * (1 + i) for i in range(9)])
    many3 = many2.reshape(3, 3, -1)
    E['compute_features_2d.many.progress'] = lambda v: compute_features_2d(many2, 64, (6, 14), {'threshold_kwargs': dict(S.T0)}, n_jobs=1, progress=v)
    E['compute_features_3d.01.many.progress'] = lambda v: compute_features_3d(many3, 64, (6, 14), {'threshold_kwargs': dict(S.T0)}, axis=(0, 1), n_jobs=1, progress=v)
    E['compute_features_3d.many.progress'] = lambda v: compute_features_3d(many2.reshape(9, 1, -1), 64, (6, 14), {'threshold_kwargs': dict(S.T0)}, axis=0, n_jobs=1, progress=v)
    E['BycycleGroup.fit.many.progress'] = lambda v: BycycleGroup(thresholds=dict(S.T0)).fit(many2, 64, (6, 14), n_jobs=1, progress=v)
    E['compute_features_2d.many.axis'] = lambda v: compute_features_2d(many2, 64, (6, 14), {'threshold_kwargs': dict(S.T0)}, axis=v, n_jobs=1)
    E['Bycycle.fit.ndim'] = lambda v: Bycycle(thresholds=dict(S.T0)).fit((np.zeros((2,) * (v - 1) + (48,)) + sig[:48]) if v else np.array(1.), 64, (6, 14))
    E['BycycleGroup.fit.ndim'] = lambda v: BycycleGroup(thresholds=dict(S.T0)).fit((np.zeros((1,) * (v - 1) + (48,)) + sig[:48]) if v else np.array(1.), 64, (6, 14), n_jobs=1)
    E['detect_bursts_cycles.positional'] = lambda v: detect_bursts_cycles(_table().drop(columns=['is_burst']), *v)
    E['detect_bursts_amp.positional'] = lambda v: detect_bursts_amp(_table('amp').drop(columns=['is_burst']), *v)
    E['check_min_burst_cycles.positional'] = lambda v: check_min_burst_cycles(np.array([True, True, False]), *v)

    def refit(v):
        first, second = v
        bg = BycycleGroup(thresholds=dict(S.T0))
        mk = lambda nd: (np.zeros((1,) * (nd - 1) + (48,)) + sig[:48]) if nd else np.array(1.)      # noqa: E731
        bg.fit(mk(first), 64, (6, 14), n_jobs=1)
        bg.fit(mk(second), 64, (6, 14), n_jobs=1)
    E['BycycleGroup.refit.ndim'] = refit
    E['Bycycle.plot.before_fit'] = lambda v: Bycycle(thresholds=dict(S.T0)).plot()
    return E


def probes():
    P = []
    fs_entries = ['compute_features', 'compute_shape_features', 'compute_cyclepoints', 'find_extrema', 'compute_band_amp',
                  'compute_burst_fraction', 'limit_df', 'Bycycle.fit', 'BycycleGroup.fit', 'compute_features_2d',
                  'compute_features_3d', 'plot_burst_detect_summary', 'plot_burst_detect_param', 'plot_cyclepoints_df',
                  'plot_cyclepoints_array']
    for e in fs_entries:
        for v, exp in ((-64, 'VE'), (-1e-9, 'VE'), (0, 'VE'), (64, 'ok')):
            P.append([e + '.fs', v, exp])
    for k in ('amp_fraction', 'amp_consistency', 'period_consistency', 'monotonicity'):
        for pre in ('detect_bursts_cycles.', 'compute_features.', 'Bycycle.fit.', 'recompute_edges.', 'compute_features_2d.'):
            for v, exp in ((-.01, 'VE'), (0, 'ok'), (.01, 'ok'), (.99, 'ok'), (1, 'ok'), (1.01, 'VE'), (-1e-9, 'VE'), (1 + 1e-9, 'VE')):
                P.append([pre + k + '_threshold', v, exp])
        for v, exp in ((-.01, 'VE'), (.5, 'ok'), (1.01, 'VE')):
            P.append(['Bycycle.fit.shorthand.' + k, v, exp])
    for pre in ('detect_bursts_amp.', 'compute_features.', 'Bycycle.fit.'):
        for v, exp in ((-.01, 'VE'), (0, 'ok'), (.01, 'ok'), (.99, 'ok'), (1, 'ok'), (1.01, 'VE')):
            P.append([pre + 'burst_fraction_threshold', v, exp])
    for e in ('check_min_burst_cycles', 'detect_bursts_cycles', 'detect_bursts_amp', 'compute_features.cycles',
              'compute_features.amp.thr', 'compute_features.amp.bk', 'Bycycle.fit'):
        for v, exp in ((-1, 'VE'), (-.5, 'VE'), (0, 'ok'), (1, 'ok'), (3, 'ok')):
            P.append([e + '.min_n_cycles', v, exp])
    for e in ('compute_burst_fraction', 'compute_features', 'Bycycle.fit'):
        for v, exp in (((2, 1), 'VE'), ((1.0001, 1), 'VE'), ((-1, 1), 'VE'), ((-.01, 1), 'VE'), ((.5, 1), 'ok'), ((1, 2), 'ok'), ((.01, 1), 'ok'), ((1, 1), 'ok')):
            P.append([e + '.amp_threshes', list(v), exp])
    for e in ('compute_shape_features', 'compute_band_amp'):
        for v, exp in ((-1, 'VE'), (-.01, 'VE'), (3, 'ok'), (2, 'ok')):
            P.append([e + '.n_cycles', v, exp])
    for e in ('compute_features', 'compute_shape_features', 'Bycycle.fit'):
        for v, exp in (('peak', 'ok'), ('trough', 'ok'), ('x', 'VE'), ('Peak', 'VE'), (None, 'VE'), ('', 'VE')):
            P.append([e + '.center_extrema', v, exp])
    for e in ('compute_features', 'compute_burst_features', 'Bycycle.fit'):
        for v, exp in (('cycles', 'ok'), ('x', 'VE'), ('Amp', 'VE'), (None, 'VE')):
            P.append([e + '.burst_method', v, exp])
    for v, exp in (('peak', 'ok'), ('trough', 'ok'), (None, 'ok'), ('x', 'VE'), ('Peak', 'VE'), (0, 'VE')):
        P.append(['find_extrema.first_extrema', v, exp])
        P.append(['find_extrema.nopad.first_extrema', v, exp])
        P.append(['find_extrema.boundary5.first_extrema', v, exp])
    for e in ('BycycleGroup.fit', 'Bycycle.fit.amp', 'Bycycle.fit.amp.bk', 'Bycycle.fit', 'compute_features.cycles', 'check_min_burst_cycles'):
        for v, exp in ((-1, 'VE'), (-.5, 'VE'), (-1e-6, 'VE'), (-.999, 'VE'), (0, 'ok'), (2.5, 'ok')):
            P.append([e + '.min_n_cycles', v, exp])
    for v in ('peak', 'trough', 'x', None):
        P.append(['compute_features.find_extrema_kwargs.first_extrema', v, 'VE'])
    for e in ('compute_amp_consistency', 'compute_period_consistency', 'recompute_edge'):
        for v, exp in (('both', 'ok'), ('next', 'ok'), ('last', 'ok'), ('x', 'VE'), ('Next', 'VE'), (None, 'VE')):
            P.append([e + '.direction', v, exp])
    for e in ('progress_bar', 'compute_features_2d', 'compute_features_3d', 'compute_features_3d.01', 'BycycleGroup.fit'):
        for v, exp in ((None, 'ok'), ('tqdm', 'ok'), ('tqdm.notebook', 'ok'), ('x', 'VE'), ('TQDM', 'VE'), ('bar', 'VE'), ('tqdm.nb', 'VE'),
                       ('tqdm.', 'VE'), ('tqdm.notebook.x', 'VE'), ('notebook', 'VE'), (' tqdm', 'VE'), ('tqdm_notebook', 'VE'), ('', 'VE'),
                       (True, 'VE'), (0, 'VE')):
            P.append([e + '.progress', v, exp])
    for e in ('compute_amp_consistency.rows2', 'compute_amp_consistency.rows1', 'compute_period_consistency.rows2', 'compute_period_consistency.rows1'):
        for v, exp in (('both', 'ok'), ('next', 'ok'), ('last', 'ok'), ('x', 'VE'), ('Both', 'VE'), (None, 'VE')):
            P.append([e + '.direction', v, exp])
    for e in ('detect_bursts_cycles.rows1.monotonicity_threshold', 'detect_bursts_cycles.rows0.amp_fraction_threshold',
              'detect_bursts_amp.rows1.burst_fraction_threshold'):
        for v, exp in ((1.5, 'VE'), (-.5, 'VE'), (.5, 'ok'), (1, 'ok'), (0, 'ok')):
            P.append([e, v, exp])
    for e in ('check_min_burst_cycles.empty', 'check_min_burst_cycles.allfalse'):
        for v, exp in ((-1, 'VE'), (-.5, 'VE'), (0, 'ok'), (3, 'ok')):
            P.append([e + '.min_n_cycles', v, exp])
    for v, exp in ((0, 'VE'), (1, 'ok'), (2, 'VE'), (3, 'VE')):
        P.append(['Bycycle.fit.ndim', v, exp])
    for v, exp in (([48], 'ok'), ([1, 48], 'VE'), ([48, 1], 'VE'), ([1, 1, 48], 'VE'), ([2, 24], 'VE')):
        P.append(['Bycycle.fit.shape', v, exp])
    for v, exp in (([48], 'VE'), ([1, 48], 'ok'), ([1, 1, 48], 'ok'), ([1, 1, 1, 48], 'VE')):
        P.append(['BycycleGroup.fit.shape', v, exp])
    for e in ('compute_features_2d.many', 'compute_features_3d.01.many', 'compute_features_3d.many', 'BycycleGroup.fit.many'):
        for v, exp in ((None, 'ok'), ('tqdm', 'ok'), ('bar', 'VE'), ('rich', 'VE'), (True, 'VE')):
            P.append([e + '.progress', v, exp])
    for v, exp in ((0, 'ok'), (None, 'ok'), (1, 'VE'), ('0', 'VE'), (-1, 'VE')):
        P.append(['compute_features_2d.many.axis', v, exp])
    for v, exp in ((0, 'VE'), (1, 'VE'), (2, 'ok'), (3, 'ok'), (4, 'VE')):
        P.append(['BycycleGroup.fit.ndim', v, exp])
    # the same out-of-range values carried by numpy scalar types
    def T(kind, v):
        return {'np': kind, 'v': v}
    for mk, nm in ((lambda v: T('float32', v), 'float32'), (lambda v: T('float16', v), 'float16'), (lambda v: T('float64', v), 'float64')):
        for pre in ('detect_bursts_cycles.', 'compute_features.', 'Bycycle.fit.'):
            P.append([pre + 'monotonicity_threshold', mk(1.5), 'VE'])
            P.append([pre + 'amp_fraction_threshold', mk(-.5), 'VE'])
            P.append([pre + 'period_consistency_threshold', mk(.5), 'ok'])
        P.append(['detect_bursts_amp.burst_fraction_threshold', mk(1.5), 'VE'])
        P.append(['compute_features.fs', mk(-64), 'VE'])
    for mk in (lambda v: T('int64', v), lambda v: T('int32', v), lambda v: T('int8', v)):
        for e in ('check_min_burst_cycles', 'detect_bursts_cycles', 'detect_bursts_amp', 'compute_features.cycles', 'compute_features.amp.thr',
                  'Bycycle.fit'):
            P.append([e + '.min_n_cycles', mk(-2), 'VE'])
            P.append([e + '.min_n_cycles', mk(2), 'ok'])
    for e in ('compute_burst_fraction', 'compute_features'):
        P.append([e + '.amp_threshes', T('array-int64', [2, 1]), 'VE'])
        P.append([e + '.amp_threshes', T('array-float32', [2., 1.]), 'VE'])
        P.append([e + '.amp_threshes', T('array-float64', [.5, 1.]), 'ok'])
    # thresholds passed positionally (documented parameter order)
    for v, exp in (((0., .5, .5, 1.5), 'VE'), ((-.1,), 'VE'), ((0., 1.5), 'VE'), ((0., .5, -1e-9), 'VE'), ((0., .5, .5, .8, -1), 'VE'),
                   ((0., .5, .5, .8, 3), 'ok'), ((.2, .3), 'ok')):
        P.append(['detect_bursts_cycles.positional', list(v), exp])
    for v, exp in (((1.5,), 'VE'), ((-.1,), 'VE'), ((.5, -1), 'VE'), ((.5, 2), 'ok')):
        P.append(['detect_bursts_amp.positional', list(v), exp])
    for v, exp in (((-1,), 'VE'), ((2,), 'ok')):
        P.append(['check_min_burst_cycles.positional', list(v), exp])
    for first in (2, 3):
        for second, exp in ((0, 'VE'), (1, 'VE'), (2, 'ok'), (3, 'ok'), (4, 'VE')):
            P.append(['BycycleGroup.refit.ndim', [first, second], exp])
    P.append(['Bycycle.plot.before_fit', None, 'VE'])
    return P


_E = None


def eval_probe(case):
    import matplotlib.pyplot as plt
    global _E
    if _E is None:
        _E = entry_points()
    name, v, exp = case
    if isinstance(v, dict) and 'np' in v:
        v = np.array(v['v'], dtype=v['np'][6:]) if v['np'].startswith('array-') else getattr(np, v['np'])(v['v'])
    v = tuple(v) if isinstance(v, list) else v
    try:
        _E[name](v)
        got = 'ok'
    except ValueError:
        got = 'VE'
    except Exception as e:      # noqa
        got = type(e).__name__
    finally:
        plt.close('all')
    if got != exp:
        return VIOL({'site': name, 'expected': exp, 'got': got, 'value': repr(v)},
                    '%s with %r: expected %s, got %s' % (name, v, {'ok': 'acceptance', 'VE': 'ValueError'}[exp], got))
    return OK(outcome=(name, repr(v), exp), nontrivial=exp == 'VE')


def spaces(tier, seed):
    cells = [[list(s), list(a) if isinstance(a, tuple) else a, list(k) if isinstance(k, tuple) else k]
             for s in SHAPES for a in AXES for k in KSHAPES]
    sp = [ListSpace('kwargs-grid', cells, eval_cell, bounds={'shapes': SHAPES, 'axes': [repr(a) for a in AXES], 'list_shapes': len(KSHAPES)},
                      describe='complete array shape x axis x option-list shape grid: check_kwargs_shape + the real group call + BycycleGroup.fit'),
            ListSpace('param-probes', probes(), eval_probe,
                      describe='each documented parameter just outside / on / just inside its range, unknown enumerated values, '
                               'wrong dimensionality, plot before fit, through every entry point')]
    for x in sp:
        x.task_timeout = 150 if tier == 'quick' else 600       # every task is a single call of a second at most
    return sp
