"""C06 - consistency burst labels = threshold-and-run rule.

Spaces: (i) synthetic feature tables: every table of n cycles where each cycle has one of 13 profiles
relative to the threshold vector (all above / feature k exactly at / just below / NaN), x min_n_cycles
x two threshold vectors, and the complete {below, at, above, NaN}^4 relation product on one interior
cycle; (ii) pipeline tables of all words x threshold *region grids* (every order relation between a
threshold and the column values) x min_n_cycles, with monotone chains; (iii) routing of
threshold_kwargs through compute_features."""
import itertools
import math

import numpy as np
import pandas as pd

from bcmc.explore import ProductSpace, OK, VIOL, SKIP
from bcmc.ref.burst import ref_labels_cycles, CYC_DEFAULTS
from bcmc import spaces as S

LEVEL = 'model_checking'
RULE = ('(i) product tree over per-cycle profiles, every prefix of length >= 1 is a table; (ii) word tree, each word '
        'evaluated over the full threshold region grid with <= 1 (quick) / <= 2 (thorough) thresholds off default; '
        'non-trivial = table with >= 1 labelled and >= 1 unlabelled interior cycle; distinct = distinct '
        '(table, label vectors) outcomes')
ASSUMPTIONS = ['threshold region abstraction: a threshold matters only through its order relation to the column '
               'values, so {0,1} + values + midpoints covers [0,1] exactly']

FEATS = ('amp_fraction', 'amp_consistency', 'period_consistency', 'monotonicity')
PROFILES = ['all'] + ['%s%d' % (r, k) for k in range(4) for r in ('at', 'below', 'nan')]
THR_VECS = [(.25, .5, .5, .75), (0., .5, 1., .5)]


def profile_values(prof, thr):
    v = [t + .25 for t in thr]
    if prof != 'all':
        k = int(prof[-1])
        r = prof[:-1]
        v[k] = thr[k] if r == 'at' else (thr[k] - .25 if r == 'below' else float('nan'))
    return v


def run_detect(df, thr, m):
    from bycycle.burst import detect_bursts_cycles
    if (len(df) + int(m)) % 2:
        df['is_burst'] = True          # the table was labelled before (e.g. by an earlier, looser thresholding): must not matter
    if (len(df) + 2 * int(m)) % 4 == 1:
        df['Label'] = 'chan-1'                   # an unrelated user column
        df = df[list(df.columns[::-1])]          # columns in another order
    ik = (len(df) * 2 + int(m)) % 3
    if ik == 1:
        df.index = range(4, 4 + len(df))                      # a slice of a longer table
    elif ik == 2:
        df.index = [(0, 1, 0, 2, 1, 0)[i % 6] for i in range(len(df))]      # concatenated tables: interior rows share the first / last label
    kw = dict(zip([f + '_threshold' for f in FEATS], thr))
    out = detect_bursts_cycles(df, min_n_cycles=m, **kw)
    return [bool(x) for x in out['is_burst'].to_numpy()]


def eval_profiles(case):
    n = len(case)
    outs, nev, nt = [], 0, False
    for ti, thr in enumerate(THR_VECS):
        rows = [profile_values(p, thr) for p in case]
        for m in (0, 1, 2, 3, n + 1):
            df = pd.DataFrame(rows, columns=list(FEATS))
            feat = {f: df[f].tolist() for f in FEATS}
            exp, ok = ref_labels_cycles(feat, dict(zip([f + '_threshold' for f in FEATS], thr)), m)
            nev += 1
            try:
                got = run_detect(df, thr, m)
            except Exception as e:      # noqa
                return VIOL({'kind': 'raise', 'exc': type(e).__name__, 'site': 'detect_bursts_cycles'},
                            'detect_bursts_cycles raised %s: %s' % (type(e).__name__, str(e)[:160]),
                            expected=exp, observed={'thr': thr, 'm': m}, evals=nev)
            if got != exp:
                return VIOL({'kind': 'labels', 'profiles': list(case), 'thr': list(thr), 'm': m},
                            'labels differ from threshold-and-run reference', expected=exp, observed=got, evals=nev)
            outs.append(tuple(got))
            inner = got[1:-1]
            nt = nt or (any(inner) and not all(inner))
    return OK(outcome=(tuple(case), tuple(outs)), nontrivial=nt, evals=nev)


REL = ('below', 'at', 'above', 'nan')


def eval_relations(case):
    thr = THR_VECS[0]
    mid = []
    for k, r in enumerate(case):
        mid.append({'below': thr[k] - .125, 'at': thr[k], 'above': thr[k] + .125, 'nan': float('nan')}[r])
    top = [t + .25 for t in thr]
    nev = 0
    outs = []
    for m in (0, 1, 2):
        df = pd.DataFrame([top, top, mid, top, top], columns=list(FEATS))
        feat = {f: df[f].tolist() for f in FEATS}
        exp, _ = ref_labels_cycles(feat, dict(zip([f + '_threshold' for f in FEATS], thr)), m)
        nev += 1
        try:
            got = run_detect(df, thr, m)
        except Exception as e:      # noqa
            return VIOL({'kind': 'raise', 'exc': type(e).__name__, 'site': 'detect_bursts_cycles'},
                        'detect_bursts_cycles raised %s: %s' % (type(e).__name__, str(e)[:160]), evals=nev)
        if got != exp:
            return VIOL({'kind': 'labels', 'relations': list(case), 'm': m}, 'labels differ on relation product',
                        expected=exp, observed=got, evals=nev)
        outs.append(tuple(got))
    return OK(outcome=(tuple(case), tuple(outs)), nontrivial=any(r != 'above' for r in case), evals=nev)


def region_grid(values):
    vs = sorted({float(v) for v in values if not math.isnan(float(v)) and 0 <= float(v) <= 1})
    g = {0.0, 1.0}
    g.update(vs)
    allv = sorted(g)
    for a, b in zip(allv[:-1], allv[1:]):
        g.add((a + b) / 2)
    return sorted(g)


class WordRegions:
    def __init__(self, tier):
        self.max_moving = 1 if tier == 'quick' else 2
        self.centres = ('peak', 'trough')

    def __call__(self, case):
        from bycycle.features import compute_features
        from bycycle.burst import detect_bursts_cycles
        w = ''.join(case)
        sig = S.word_signal(w)
        nev, nt, outs = 0, False, []
        for centre in self.centres:
            try:
                df0 = compute_features(sig, 64, (6, 14), center_extrema=centre, threshold_kwargs=dict(S.T0))
            except Exception as e:      # noqa
                from bcmc.pipe import precondition
                if not precondition(sig, S.resolve(('trough',) if centre == 'trough' else ()))[0]:
                    continue          # e.g. an all-zero word: no cycle to segment, outcome not defined by the property
                return VIOL({'kind': 'raise', 'exc': type(e).__name__, 'site': 'compute_features'},
                            'compute_features raised %s: %s' % (type(e).__name__, str(e)[:160]))
            if len(df0) < 3:
                continue
            feat = {f: df0[f].tolist() for f in FEATS}
            base = dict(S.T0)
            # (iii) routing: labels of compute_features == reference with the same thresholds
            exp, _ = ref_labels_cycles(feat, base, base['min_n_cycles'])
            got = [bool(x) for x in df0['is_burst'].to_numpy()]
            nev += 1
            if got != exp:
                return VIOL({'kind': 'routing', 'word': w, 'centre': centre}, 'compute_features labels != reference',
                            expected=exp, observed=got, evals=nev)
            for m in ((0, 1, 3, 4) if self.max_moving > 1 else (0, 3)):
                thr_m = dict(base, min_n_cycles=m)
                dfm = compute_features(sig, 64, (6, 14), center_extrema=centre, threshold_kwargs=dict(thr_m))
                exp, _ = ref_labels_cycles(feat, thr_m, m)
                got = [bool(x) for x in dfm['is_burst'].to_numpy()]
                nev += 1
                if got != exp:
                    return VIOL({'kind': 'routing', 'word': w, 'centre': centre, 'min_n_cycles': m},
                                'compute_features(threshold_kwargs min_n_cycles=%d) labels != reference' % m,
                                expected=exp, observed=got, evals=nev)
            # every threshold exactly on the ends of its documented range, routed through compute_features
            if sum(map(ord, w)) % 4 == 0:
                for f in FEATS:
                    for v in (0, 1, 0.0, 1.0):
                        thr_b = dict(base)
                        thr_b[f + '_threshold'] = v
                        dfb = compute_features(sig, 64, (6, 14), center_extrema=centre, threshold_kwargs=dict(thr_b))
                        exp, _ = ref_labels_cycles(feat, thr_b, thr_b['min_n_cycles'])
                        got = [bool(x) for x in dfb['is_burst'].to_numpy()]
                        nev += 1
                        if got != exp:
                            return VIOL({'kind': 'routing', 'word': w, 'centre': centre, 'threshold': f, 'value': repr(v)},
                                        'compute_features(%s_threshold=%r) labels != reference' % (f, v), expected=exp, observed=got, evals=nev)
            # thresholds one floating-point step below / above a value of the table, routed through compute_features
            hsh = sum(map(ord, w))
            f = FEATS[hsh % 4]
            vals = sorted({float(v) for v in feat[f] if v == v and 0 < float(v) < 1})
            for v in vals[:2]:
                for t in (np.nextafter(v, -1.0), np.nextafter(v, 2.0)):
                    thr_b = dict(base)
                    thr_b[f + '_threshold'] = float(t)
                    dfb = compute_features(sig, 64, (6, 14), center_extrema=centre, threshold_kwargs=dict(thr_b))
                    exp, _ = ref_labels_cycles(feat, thr_b, thr_b['min_n_cycles'])
                    got = [bool(x) for x in dfb['is_burst'].to_numpy()]
                    nev += 1
                    if got != exp:
                        return VIOL({'kind': 'routing', 'word': w, 'centre': centre, 'threshold': f, 'value': 'nextafter'},
                                    'compute_features(%s_threshold=%r, one step from a table value) labels != reference' % (f, float(t)),
                                    expected=exp, observed=got, evals=nev)
            grids = {f: region_grid(feat[f]) for f in FEATS}
            feats_only = df0.copy()
            feats_only['is_burst'] = True      # re-thresholding an already labelled table: old labels must not survive
            moving_sets = [c for k in range(1, self.max_moving + 1) for c in itertools.combinations(FEATS, k)]
            for mv in moving_sets:
                for m in (0, 1, 2, 3, 4):
                    prev = {}
                    for vals in itertools.product(*[grids[f] for f in mv]):
                        thr = dict(base)
                        for f, v in zip(mv, vals):
                            thr[f + '_threshold'] = v
                        thr['min_n_cycles'] = m
                        exp, _ = ref_labels_cycles(feat, thr, m)
                        out = detect_bursts_cycles(feats_only.copy(), **thr)
                        got = [bool(x) for x in out['is_burst'].to_numpy()]
                        nev += 1
                        if got != exp:
                            return VIOL({'kind': 'labels', 'word': w, 'centre': centre, 'thr': thr},
                                        'labels differ from threshold-and-run reference on pipeline table',
                                        expected=exp, observed=got, evals=nev)
                        # monotone chain: against every smaller threshold vector already seen that is
                        # the immediate predecessor in one coordinate
                        for i in range(len(mv)):
                            gi = grids[mv[i]]
                            j = gi.index(vals[i])
                            if j > 0:
                                pv = vals[:i] + (gi[j - 1],) + vals[i + 1:]
                                pg = prev.get(pv)
                                if pg is not None and any(g and not p for g, p in zip(got, pg)):
                                    return VIOL({'kind': 'monotone', 'word': w, 'centre': centre, 'thr': thr},
                                                'raising a threshold added a burst label',
                                                expected=pg, observed=got, evals=nev)
                        prev[vals] = got
                        inner = got[1:-1]
                        nt = nt or (any(inner) and not all(inner))
                    outs.append(hash(tuple(tuple(v) for v in prev.values())))
            # min_n_cycles chain at base thresholds
            prevg = None
            for m in range(0, len(df0) + 2):
                thr = dict(base)
                thr['min_n_cycles'] = m
                out = detect_bursts_cycles(feats_only.copy(), **thr)
                got = [bool(x) for x in out['is_burst'].to_numpy()]
                nev += 1
                if prevg is not None and any(g and not p for g, p in zip(got, prevg)):
                    return VIOL({'kind': 'monotone-m', 'word': w, 'centre': centre, 'm': m},
                                'raising min_n_cycles added a burst label', expected=prevg, observed=got, evals=nev)
                prevg = got
        if nev == 0:
            return SKIP('fewer than 3 cycles')
        return OK(outcome=(w, tuple(outs)), nontrivial=nt, evals=nev)


def eval_many_runs(case):
    """Synthetic tables with MANY runs of qualifying cycles (run lengths cycling through a pattern around the minimum), a
    volt_amp column spanning ten orders of magnitude, 2 threshold vectors x min_n_cycles 2..5."""
    from bycycle.burst import detect_bursts_cycles
    from bcmc.props.C08 import RUN_PATTERNS
    R, pi, fail = case
    lens, gaps = RUN_PATTERNS[pi]
    q = [False]
    for r in range(R):
        q += [True] * lens[r % len(lens)] + [False] * gaps[r % len(gaps)]
    q += [True] * 6 + [False]
    n = len(q)
    nev = 0
    for thr in THR_VECS:
        rows = [profile_values('all' if ok else fail, thr) for ok in q]
        df = pd.DataFrame(rows, columns=list(FEATS))
        df['volt_amp'] = [10.0 ** ((i * 7) % 11 - 6) for i in range(n)]
        feat = {f: df[f].tolist() for f in FEATS}
        for m in (2, 3, 4, 5):
            kw = dict(zip([f + '_threshold' for f in FEATS], thr))
            exp, _ = ref_labels_cycles(feat, kw, m)
            got = [bool(x) for x in detect_bursts_cycles(df.copy(), min_n_cycles=m, **kw)['is_burst'].to_numpy()]
            nev += 1
            if got != exp:
                bad = [i for i in range(n) if got[i] != exp[i]]
                return VIOL({'kind': 'labels-many-runs', 'pattern': pi, 'm': m}, '%d runs (pattern %s), min_n_cycles=%d: labels differ from the '
                            'threshold-and-run reference from cycle %d on (%d cycles)' % (R, lens, m, bad[0], len(bad)), evals=nev)
    return OK(outcome=(R, pi, fail), nontrivial=True, evals=nev)


SHORT = {'amp_fraction': 'amp_fraction_threshold', 'amp_consistency': 'amp_consistency_threshold',
         'period_consistency': 'period_consistency_threshold', 'monotonicity': 'monotonicity_threshold', 'min_n_cycles': 'min_n_cycles'}
OBJ_THR = [{'amp_fraction': .1, 'amp_consistency': .4, 'period_consistency': .6, 'monotonicity': .4, 'min_n_cycles': 2},
           {'monotonicity': .4},                                  # partial, short name: the others keep their documented defaults
           {'monotonicity_threshold': .3, 'min_n_cycles': 1},     # partial, full names
           {'amp_consistency': .2, 'monotonicity_threshold': .5, 'min_n_cycles': 2}]


def eval_object_routes(case):
    """Thresholds given to the OBJECTS (short names, partial dictionaries) and per-signal threshold lists of compute_features_3d:
    the labels of every table follow the rule for the threshold vector that was given for it."""
    import contextlib, io
    from bycycle import Bycycle, BycycleGroup
    from bycycle.group import compute_features_3d
    from bcmc import sched
    from bcmc.ref.burst import ref_labels_from_table
    letters, centre = case[:-1], case[-1]
    w = ''.join(letters)
    sig = S.word_signal(w)
    from bcmc.pipe import precondition
    if not precondition(sig, S.resolve(('trough',) if centre == 'trough' else ()))[0]:
        return SKIP('precondition')
    nev, nt = 0, False
    full = [{SHORT.get(k, k): v for k, v in t.items()} for t in OBJ_THR]
    for t, f in zip(OBJ_THR, full):
        bm = Bycycle(center_extrema=centre, thresholds=dict(t))
        bm.fit(np.array(sig), 64, (6, 14))
        nev += 1
        exp = ref_labels_from_table(bm.df_features, 'cycles', f)
        got = [bool(x) for x in bm.df_features['is_burst']]
        if got != exp:
            return VIOL({'kind': 'object-labels', 'centre': centre, 'short_names': any(k in SHORT and k != 'min_n_cycles' for k in t), 'partial': len(t) < 5},
                        'Bycycle(thresholds=%r).fit: labels are not the rule for these thresholds (missing ones at their defaults)' % (t,),
                        expected=exp, observed={'got': got, 'word': w}, evals=nev)
        nt = nt or any(got)
    # one object, the SAME array fitted again after each in-place edit of its thresholds (raise, then lower again): the labels follow
    # the thresholds in force at the time of the fit, and raising one only removes labels
    arr = np.array(sig)
    bm = Bycycle(center_extrema=centre, thresholds=dict(full[0]))
    bm.fit(arr, 64, (6, 14))
    prev = [bool(x) for x in bm.df_features['is_burst']]
    for key, val in (('monotonicity_threshold', .8), ('amp_fraction_threshold', .5), ('min_n_cycles', 4), ('monotonicity_threshold', .2),
                     ('period_consistency_threshold', .9), ('amp_fraction_threshold', 0.), ('min_n_cycles', 1)):
        raised = val > bm.thresholds[key]
        bm.thresholds[key] = val
        bm.fit(arr, 64, (6, 14))
        nev += 1
        exp = ref_labels_from_table(bm.df_features, 'cycles', dict(bm.thresholds))
        got = [bool(x) for x in bm.df_features['is_burst']]
        if got != exp or (raised and any(g and not q for g, q in zip(got, prev))):
            return VIOL({'kind': 'object-refit-after-edit', 'centre': centre, 'key': key},
                        'Bycycle.fit of the same array after thresholds[%r] = %r was set in place: labels are not the rule for the thresholds in force' % (key, val),
                        expected=exp, observed={'got': got, 'before_edit': prev, 'word': w, 'thresholds': dict(bm.thresholds)}, evals=nev)
        prev = got
    # per-signal threshold lists, non-square 3-D array, the same recording in every slot (scaled)
    sigs = np.array([[sig * (1 + i * 3 + j) for j in range(3)] for i in range(2)])
    kws = [[{'center_extrema': centre, 'threshold_kwargs': dict(full[(i * 3 + j) % 4])} for j in range(3)] for i in range(2)]
    with sched.patched_pool(None), contextlib.redirect_stdout(io.StringIO()):
        dfs = compute_features_3d(sigs, 64, (6, 14), compute_features_kwargs=kws, axis=(0, 1), n_jobs=1)
        bg = BycycleGroup(center_extrema=centre, thresholds=dict(OBJ_THR[0]))
        bg.fit(sigs[0], 64, (6, 14), n_jobs=1)
    for i in range(2):
        for j in range(3):
            nev += 1
            exp = ref_labels_from_table(dfs[i][j], 'cycles', full[(i * 3 + j) % 4])
            got = [bool(x) for x in dfs[i][j]['is_burst']]
            if got != exp:
                return VIOL({'kind': 'group-labels', 'centre': centre, 'site': 'compute_features_3d(axis=(0,1))'},
                            'table [%d][%d]: labels are not the rule for the thresholds given for that position' % (i, j),
                            expected=exp, observed={'got': got, 'word': w}, evals=nev)
    for j in range(3):
        nev += 1
        exp = ref_labels_from_table(bg.df_features[j], 'cycles', full[0])
        got = [bool(x) for x in bg.df_features[j]['is_burst']]
        if got != exp:
            return VIOL({'kind': 'group-labels', 'centre': centre, 'site': 'BycycleGroup.fit', 'short_names': True},
                        'BycycleGroup(thresholds=short names).fit: labels of row %d are not the rule for these thresholds' % j,
                        expected=exp, observed={'got': got, 'word': w}, evals=nev)
    return OK(outcome=(w, centre), nontrivial=nt, evals=nev)


EP_THR = [dict(S.T0), dict(S.T1), dict(S.T0, min_n_cycles=1), dict(S.T1, min_n_cycles=2, amp_consistency_threshold=.1)]


def eval_epoch_list(case):
    """compute_features_2d(axis=None) with ONE OPTION DICT PER EPOCH: every epoch table is re-labelled with its own thresholds, so
    its is_burst column must be the threshold-and-run rule applied to THAT table (first and last row of the table never qualify)."""
    from bycycle.group import compute_features_2d
    from bcmc.ref.burst import ref_labels_from_table
    letters, (centre, E, rot) = case[:-1], case[-1]
    w = ''.join(letters)
    sig = S.word_signal(w)
    if len(sig) % E:
        return SKIP('length not a multiple of the epoch length')
    n_ep = len(sig) // E
    thr = [dict(EP_THR[(e + rot) % len(EP_THR)]) for e in range(n_ep)]
    kws = [{'center_extrema': centre, 'burst_method': 'cycles', 'threshold_kwargs': dict(t)} for t in thr]
    try:
        dfs = compute_features_2d(sig.reshape(n_ep, E).copy(), 64, (6, 14), kws, axis=None)
    except Exception as e:      # noqa
        return VIOL({'kind': 'raise', 'exc': type(e).__name__, 'site': 'compute_features_2d(axis=None)'},
                    'compute_features_2d raised %s: %s' % (type(e).__name__, str(e)[:160]))
    nt = False
    outs = []
    for e, df in enumerate(dfs):
        exp = ref_labels_from_table(df, 'cycles', thr[e])
        got = [bool(x) for x in df['is_burst'].to_numpy()]
        if got != exp:
            return VIOL({'kind': 'epoch-labels', 'centre': centre, 'epoch0': e == 0, 'site': 'compute_features_2d(axis=None)'},
                        'epoch %d: labels are not the threshold-and-run rule applied to that epoch table with its own thresholds' % e,
                        expected=exp, observed={'got': got, 'word': w, 'E': E, 'thresholds': thr[e]}, evals=e + 1)
        nt = nt or any(got)
        outs.append(tuple(got))
    return OK(outcome=(w, centre, E, rot, tuple(outs)), nontrivial=nt, evals=len(dfs))


def spaces(tier, seed):
    n = 4 if tier == 'quick' else 5
    out = [ProductSpace('profiles^<=%d' % n, [PROFILES] * n, eval_profiles, min_len=1,
                        describe='every table of 1..%d cycles over 13 threshold-relative profiles x 5 min_n_cycles x 2 '
                                 'threshold vectors' % n, bounds={'profiles': 13, 'max_cycles': n}),
           ProductSpace('relations^4', [REL] * 4, eval_relations,
                        describe='complete {below,at,above,NaN}^4 on one interior cycle x min_n_cycles 0..2')]
    wr = WordRegions(tier)
    if True:
        al = S.alphabet(5)
        out.append(ProductSpace('words-W(5,5)-regions', S.word_dims(al, 5), WordRegions('quick'), bounds={'letters': al, 'moving': 1},
                                describe='pipeline tables (both centrings) x region grid of each threshold x '
                                         'min_n_cycles 0..4'))
    Rs = [3, 40] + list(range(124, 132)) + list(range(252, 260)) + [511, 512, 513, 1023, 1024, 1025] + ([] if tier == 'quick' else list(range(96, 124)) + [2047, 2048, 4096])
    out.append(ProductSpace('many-runs', [Rs, [0, 1, 2, 4], ['below0', 'at2', 'nan1']], eval_many_runs,
                            describe='synthetic tables with up to %d runs of qualifying cycles x 4 run-length patterns x 3 ways of failing, volt_amp over 10 decades' % Rs[-1]))
    out.append(ProductSpace('words-giant-W(3,5)-regions', S.word_dims(['a', 'd', 'G'], 5), WordRegions('quick'),
                            describe='words with giant cycles (artefacts 10^5 times larger than the rhythm): pipeline tables x region grids'))
    nl = 5 if tier == 'quick' else 6
    out.append(ProductSpace('object-routes-W(3,%d)' % nl, S.word_dims(['a', 'd', 'n'], nl) + [['peak', 'trough']], eval_object_routes,
                            describe='thresholds through Bycycle / BycycleGroup (short names, partial dictionaries) and per-signal lists of compute_features_3d'))
    ep = [(c, E, r) for c in ('peak', 'trough') for E in (32, 16) for r in (0, 1)]
    out.append(ProductSpace('epoch-list-W(2,8)', [['a', 'd']] * 8 + [ep], eval_epoch_list,
                            describe='compute_features_2d(axis=None) with one option dict per epoch (epochs of 4 / 2 cycles): labels of every '
                                     'epoch table against the rule applied to that table'))
    ep24 = [(c, 24, r) for c in ('peak', 'trough') for r in (0, 2)]
    out.append(ProductSpace('epoch-list-W(3,6)', S.word_dims(S.alphabet(3), 6) + [ep24], eval_epoch_list,
                            describe='same, epochs of 3 cycles over 3 letters'))
    if tier != 'quick':
        al = S.alphabet(6, seed, extra=0)
        out.append(ProductSpace('words-W(6,5)-regions', S.word_dims(al, 5), WordRegions('quick'),
                                bounds={'letters': al, 'moving': 1}))
        out.append(ProductSpace('words-W(3,5)-regions2', S.word_dims(S.alphabet(3), 5), wr,
                                bounds={'letters': S.alphabet(3), 'moving': 2}))
    return out
