"""C16 - recompute_edges touches only the cycles just outside each burst (one-sided consistency looking
into the burst), leaves everything else and the input table untouched, re-labels by the rule.

Spaces: (i) every synthetic burst layout: sequences of cycles from 5 (volt_rise, volt_decay, period)
kinds x 2 monotonicities, features and labels produced by the real feature / detection functions, x
threshold menu x reductions x both centrings; (ii) pipeline tables of all words x thresholds x
reductions, through recompute_edges and Bycycle.recompute_edges."""
import copy
import math

import numpy as np
import pandas as pd

from bcmc.explore import ProductSpace, OK, VIOL, SKIP
from bcmc import spaces as S
from bcmc.pipe import precondition, run_cf
from bcmc.ref.burst import ratio, nanmin, ref_labels_from_table
from bcmc.ref.table import fingerprint, table_hash

LEVEL = 'model_checking'
RULE = ('product tree over per-cycle kinds (every prefix of length >= 3 is a table) / letters; each table x thresholds x '
        'reductions x centrings; non-trivial = at least one edge value changes; distinct = distinct (layout, output) hashes')
ASSUMPTIONS = ['a cycle that is both an end edge and a start edge may carry either one-sided value',
               'NaN expected for an edge cycle that is the first or last row']

CYC = [(4, 4, 8), (4, 1, 8), (1, 4, 8), (4, 4, 20), (1, 1, 8)]
MONO = [.9, .1]
KINDS = [(c, m) for m in MONO for c in range(len(CYC))]
THR_MENU = [
    {'amp_fraction_threshold': 0., 'amp_consistency_threshold': .5, 'period_consistency_threshold': .5,
     'monotonicity_threshold': .5, 'min_n_cycles': 1},
    {'amp_fraction_threshold': .3, 'amp_consistency_threshold': .5, 'period_consistency_threshold': .5,
     'monotonicity_threshold': .5, 'min_n_cycles': 2},
    {'amp_fraction_threshold': 0., 'amp_consistency_threshold': .2, 'period_consistency_threshold': .3,
     'monotonicity_threshold': .05, 'min_n_cycles': 1},
]
REDUCTIONS = [0, .1, .3, -.2]      # a negative reduction = stricter thresholds than the table was labelled with


def onesided(df, e, direction, centre):
    n = len(df)
    if e <= 0 or e >= n - 1:
        return float('nan'), float('nan')
    R, D, P = df['volt_rise'].values, df['volt_decay'].values, df['period'].values
    if centre == 'peak':
        seq = [D[e - 1], R[e], D[e], R[e + 1]]
    else:
        seq = [R[e - 1], D[e], R[e], D[e + 1]]
    last, cur, nxt = ratio(seq[0], seq[1]), ratio(seq[1], seq[2]), ratio(seq[2], seq[3])
    if direction == 'next':
        a, p = nanmin([cur, nxt]), ratio(P[e], P[e + 1])
    else:
        a, p = nanmin([cur, last]), ratio(P[e], P[e - 1])
    if not math.isnan(a) and a < 0:
        a = 0.0
    return a, p


def close(x, y):
    if isinstance(x, float) and isinstance(y, float) and math.isnan(x) and math.isnan(y):
        return True
    try:
        return abs(float(x) - float(y)) <= 1e-12 + 1e-9 * abs(float(y))
    except Exception:      # noqa
        return x == y


def lowered(thr, r):
    return {k: (v - r if k.endswith('threshold') else v) for k, v in thr.items()}


def check_edges(before, out, thr2, centre, same_thr, sgn):
    """Oracle shared by the synthetic and the pipeline space. Returns (violation or None, changed?, grew?)."""
    n = len(before)
    if list(out.columns) != list(before.columns) and set(out.columns) != set(before.columns):
        return VIOL(dict(sgn, kind='columns'), 'columns changed'), False, False
    if len(out) != n:
        return VIOL(dict(sgn, kind='rows'), 'row count changed'), False, False
    b = before['is_burst'].to_numpy().astype(bool)
    starts = [i for i in range(n - 1) if not b[i] and b[i + 1]]
    ends = [i + 1 for i in range(n - 1) if b[i] and not b[i + 1]]
    E = set(starts) | set(ends)
    changed = False
    for i in range(n):
        for col in before.columns:
            if col == 'is_burst':
                continue
            x, y = before[col].iloc[i], out[col].iloc[i]
            same = close(x, y) if isinstance(x, (float, np.floating)) else x == y
            if i not in E or col not in ('amp_consistency', 'period_consistency'):
                if not same:
                    return VIOL(dict(sgn, kind='changed-nonedge', col=col), 'cell outside the burst edges changed: row %d %s %r -> %r'
                                % (i, col, x, y), observed={'is_burst': b.tolist(), 'edges': sorted(E)}), False, False
            else:
                cands = []
                if i in starts:
                    cands.append(onesided(before, i, 'next', centre))
                if i in ends:
                    cands.append(onesided(before, i, 'last', centre))
                k = 0 if col == 'amp_consistency' else 1
                if not any(close(float(cd[k]), float(y)) for cd in cands):
                    return VIOL(dict(sgn, kind='edge-value', col=col),
                                'edge cycle %d: %s = %r is not the one-sided value %s' % (i, col, y, [cd[k] for cd in cands]),
                                expected=[cd[k] for cd in cands],
                                observed={'is_burst': b.tolist(), 'row': i, 'before': float(x), 'after': float(y)}), False, False
                if not same:
                    changed = True
    exp = ref_labels_from_table(out, 'cycles', thr2)
    got = [bool(v) for v in out['is_burst']]
    if got != exp:
        return VIOL(dict(sgn, kind='labels'), 'new labels are not the threshold-and-run rule on the edited table',
                    expected=exp, observed=got), changed, False
    if same_thr and any(o and not g for o, g in zip(b, got)):
        return VIOL(dict(sgn, kind='shrunk'), 'a bursting cycle lost its label with unchanged thresholds',
                    expected=b.tolist(), observed=got), changed, False
    return None, changed, any(g and not o for o, g in zip(b, got))


def eval_layout(case, thr_menu=None, reductions=None):
    from bycycle.features.burst import compute_amp_consistency, compute_period_consistency, compute_amp_fraction
    from bycycle.burst import detect_bursts_cycles, recompute_edges
    n = len(case)
    nev, nt, outs = 0, False, []
    for centre in ('peak', 'trough'):
        df0 = pd.DataFrame({'volt_rise': [float(CYC[c][0]) for c, m in case], 'volt_decay': [float(CYC[c][1]) for c, m in case],
                            'period': [CYC[c][2] for c, m in case]})
        df0['volt_amp'] = (df0.volt_rise + df0.volt_decay) / 2
        df0['sample_' + centre] = np.arange(n)
        df0['monotonicity'] = [float(m) for c, m in case]
        df0['amp_fraction'] = compute_amp_fraction(df0)
        df0['amp_consistency'] = compute_amp_consistency(df0)
        df0['period_consistency'] = compute_period_consistency(df0)
        # the row index as earlier steps may have left it: default, offset labels (limit_df / slicing), duplicates (concat)
        if (sum(c for c, m in case) + n) % 4 == 2:
            df0['Label'] = 'chan-1'                   # an unrelated user column
            df0 = df0[list(df0.columns[::-1])]        # columns in another order
        ik = (sum(c for c, m in case) + n + (centre == 'trough')) % 3
        if ik == 1:
            df0.index = range(5, 5 + n)
        elif ik == 2:
            df0.index = [i % 2 for i in range(n)]
        for ti, thr in enumerate(thr_menu or THR_MENU):
            df = detect_bursts_cycles(df0.copy(), **thr)
            for r in (reductions or REDUCTIONS):
                thr2 = lowered(thr, r)
                if r < 0:
                    thr2['min_n_cycles'] = thr['min_n_cycles'] + 1
                if any(v < 0 or v > 1 for k, v in thr2.items() if k.endswith('threshold')):
                    continue
                before = df.copy()
                fp = fingerprint(df)
                sgn = {'site': 'recompute_edges', 'centre': centre, 'index': ('default', 'offset', 'duplicate')[ik]}
                try:
                    out = recompute_edges(df, dict(thr2))
                except Exception as e:      # noqa
                    return VIOL(dict(sgn, kind='raise', exc=type(e).__name__), 'recompute_edges raised %s: %s' % (type(e).__name__, e))
                nev += 1
                if fingerprint(df) != fp or out is df:
                    return VIOL(dict(sgn, kind='input-mutated', had_burst=bool(before['is_burst'].any())),
                                'recompute_edges modified (or returned) its input table', evals=nev)
                v, changed, grew = check_edges(before, out, thr2, centre, r == 0, sgn)
                if v is not None:
                    v['observed'] = {'layout': [list(k) for k in case], 'thr': thr2, 'detail': v.get('observed')}
                    v['evals'] = nev
                    return v
                nt = nt or changed
                outs.append(table_hash(out))
    if nev == 0:
        return SKIP('no burst in this layout')
    return OK(outcome=(tuple(case) if len(case) < 20 else (len(case), hash(tuple(case))), tuple(outs)), nontrivial=nt, evals=nev)


NEG_CYC = [(4, 4, 8), (4, -1, 8), (-1, 4, 8), (4, 1, 8)]


def eval_layout_neg(case):
    """Layouts over cycle kinds with a NEGATIVE flank voltage (a reversed flank, e.g. on a steep drift): ratios with a negative member
    are negative and the consistency is clipped at 0 - in the table and in the one-sided edge values."""
    saved = list(CYC)
    try:
        CYC[:] = NEG_CYC + [saved[-1]]
        return eval_layout([(c, .9) for c in case], thr_menu=[THR_MENU[2], THR_MENU[0]], reductions=[0, .1])
    finally:
        CYC[:] = saved


def eval_layout_long(case):
    """Tables with MANY bursts: R runs of qualifying cycles (lengths cycling through a pattern) separated by cycles that fail
    monotonicity or amplitude consistency - run numbering / counters keyed on the number of bursts (128, 256, ...)."""
    from bcmc.props.C08 import RUN_PATTERNS
    R, pi = case
    lens, gaps = RUN_PATTERNS[pi]
    good, bad, weak = (0, .9), (0, .1), (1, .9)
    kinds = [bad]
    for r in range(R):
        kinds += [good] * lens[r % len(lens)] + [weak if r % 16 == 5 else bad] * gaps[r % len(gaps)]
    kinds += [good] * 5 + [bad]
    return eval_layout(kinds, thr_menu=[THR_MENU[1], dict(THR_MENU[0], min_n_cycles=3)], reductions=[0, .1])


PIPE_THR = [dict(S.T0), {'amp_fraction_threshold': .2, 'amp_consistency_threshold': .6, 'period_consistency_threshold': .7,
                         'monotonicity_threshold': .7, 'min_n_cycles': 2}]


def eval_pipeline(case):
    from bycycle.burst import recompute_edges
    from bycycle import Bycycle
    letters, centre = case[:-1], case[-1]
    w = ''.join(letters)
    o = S.resolve(('trough',) if centre == 'trough' else ())
    sig = S.make_signal(w, o)
    ok, why, ref = precondition(sig, o)
    if not ok:
        return SKIP(why)
    nev, nt, outs = 0, False, []
    for thr in PIPE_THR:
        df = run_cf(sig, o, threshold_kwargs=dict(thr))
        for r in (0, .1, .3, -.2):
            thr2 = lowered(thr, r)
            if any(v < 0 or v > 1 for k, v in thr2.items() if k.endswith('threshold')):
                continue
            before = df.copy()
            fp = fingerprint(df)
            out = recompute_edges(df, dict(thr2))
            nev += 1
            sgn = {'site': 'recompute_edges', 'centre': centre, 'via': 'pipeline'}
            if fingerprint(df) != fp or out is df:
                return VIOL(dict(sgn, kind='input-mutated', had_burst=bool(before['is_burst'].any())),
                            'recompute_edges modified (or returned) its input table')
            v, changed, grew = check_edges(before, out, thr2, centre, r == 0, sgn)
            if v is not None:
                v['observed'] = {'word': w, 'thr': thr2, 'detail': v.get('observed')}
                return v
            nt = nt or changed
            outs.append(table_hash(out))
            # the object method: thresholds lowered by r
            bm = Bycycle(center_extrema=centre, thresholds=dict(thr))
            bm.fit(np.array(sig), 64, (6, 14))
            bm.recompute_edges(None if r == 0 else r)
            nev += 1
            from bcmc.ref.table import diff_tables
            dd = diff_tables(bm.df_features, out)
            if dd:
                return VIOL({'site': 'Bycycle.recompute_edges', 'centre': centre},
                            'Bycycle.recompute_edges(%r) differs from the functional edge recomputation: %s' % (r, dd),
                            observed={'word': w, 'thr': thr})
            # the same call once more on the same object: thresholds are lowered by r again from the SAME settings
            bm.recompute_edges(None if r == 0 else r)
            nev += 1
            dd = diff_tables(bm.df_features, recompute_edges(out, dict(thr2)))
            if dd:
                return VIOL({'site': 'Bycycle.recompute_edges', 'centre': centre, 'call': 'second'},
                            'a second Bycycle.recompute_edges(%r) differs from the functional result with the same lowered thresholds: %s' % (r, dd), observed={'word': w, 'thr': thr})
        if centre == 'peak' and sum(map(ord, w)) % 8 == 0 and thr is PIPE_THR[-1]:
            # a group: every model must be re-labelled with the thresholds lowered ONCE
            from bycycle import BycycleGroup
            sigs = np.array([sig, sig[::-1].copy(), -sig])
            shape3 = ((1, 3), (3, 1), None)[sum(map(ord, w)) // 8 % 3]          # 2-D group, or a non-square 3-D group
            bg = BycycleGroup(thresholds=dict(thr))
            if shape3 is None:
                bg.fit(sigs, 64, (6, 14), n_jobs=1)
                models = list(bg.models)
            else:
                bg.fit(sigs.reshape(shape3 + (-1,)), 64, (6, 14), axis=(0, 1), n_jobs=1)
                models = [m for row in bg.models for m in row]
            before = [m.df_features.copy() for m in models]
            try:
                bg.recompute_edges(.1)
            except Exception as e:      # noqa
                return VIOL({'site': 'BycycleGroup.recompute_edges', 'kind': 'raise', 'exc': type(e).__name__, 'shape': repr(shape3)},
                            'BycycleGroup.recompute_edges raised %s: %s' % (type(e).__name__, e), observed={'word': w})
            red = lowered(thr, .1)
            for i, m in enumerate(models):
                nev += 1
                if not before[i]['is_burst'].any():
                    continue
                dd = diff_tables(m.df_features, recompute_edges(before[i], dict(red)))
                if dd:
                    return VIOL({'site': 'BycycleGroup.recompute_edges', 'model': i},
                                'model %d after BycycleGroup.recompute_edges(.1) differs from the functional result: %s' % (i, dd),
                                observed={'word': w, 'thr': thr})
    # LAST (so that everything above is decided first): the same on a table computed WITHOUT sample columns (return_samples=False)
    thr = PIPE_THR[0]
    for r in ((0, .1) if sum(map(ord, w)) % 2 == 0 or len(w) != 7 else ()):
        thr2 = lowered(thr, r)
        thr2['amp_fraction_threshold'] = thr['amp_fraction_threshold']        # (already 0: cannot be lowered)
        df_ns = run_cf(sig, o, threshold_kwargs=dict(thr), return_samples=False)
        before_ns = df_ns.copy()
        out_ns = recompute_edges(df_ns, dict(thr2))
        nev += 1
        v, _, _ = check_edges(before_ns, out_ns, thr2, centre, r == 0, {'site': 'recompute_edges', 'centre': centre, 'via': 'pipeline-nosamples'})
        if v is not None:
            v['observed'] = {'word': w, 'thr': thr2, 'detail': v.get('observed')}
            return v
    if nev == 0:
        return SKIP('no burst')
    return OK(outcome=(w, centre, tuple(outs)), nontrivial=nt, evals=nev)


def eval_pipeline_long(case):
    from bycycle.burst import recompute_edges
    from bycycle import Bycycle
    from bcmc.ref.table import diff_tables
    w, centre = case
    o = S.resolve((S.LONG_DECL[w],) + (('trough',) if centre == 'trough' else ()))
    sig = S.make_signal(w, o)
    nev, nt = 0, False
    thr = PIPE_THR[1]
    df = run_cf(sig, o, threshold_kwargs=dict(thr))
    for r in (0, .1, .005):
        thr2 = lowered(thr, r)
        before = df.copy()
        out = recompute_edges(df, dict(thr2))
        nev += 1
        v, changed, grew = check_edges(before, out, thr2, centre, r == 0, {'site': 'recompute_edges', 'centre': centre, 'via': 'long'})
        if v is not None:
            return v
        nt = nt or changed
        bm = Bycycle(center_extrema=centre, thresholds=dict(thr))
        bm.fit(np.array(sig), o['fs'], o['f_range'])
        bm.recompute_edges(None if r == 0 else r)
        nev += 1
        dd = diff_tables(bm.df_features, out)
        if dd:
            return VIOL({'site': 'Bycycle.recompute_edges', 'centre': centre, 'via': 'long'},
                        'Bycycle.recompute_edges(%r) differs from the functional edge recomputation: %s' % (r, dd))
    return OK(outcome=(w, centre, table_hash(out)), nontrivial=nt, evals=nev)


def spaces(tier, seed):
    q = tier == 'quick'
    out = [ProductSpace('layouts<=%d' % (4 if q else 5), [KINDS] * (4 if q else 5), eval_layout, min_len=3,
                        describe='every table of 3..%d cycles over 5 flank/period kinds x 2 monotonicities x 3 threshold sets x 3 reductions x 2 centrings' % (4 if q else 5)),
           ProductSpace('layouts-mono.9-%d' % (5 if q else 6), [KINDS[:5]] * (5 if q else 6), eval_layout,
                        describe='every table of %d cycles over the 5 flank/period kinds (monotonicity .9)' % (5 if q else 6))]
    Rs = [127, 128, 129, 255, 256, 257, 258, 272] + ([] if q else [126, 130, 254, 300, 511, 512, 513, 530])
    out.append(ProductSpace('layouts-many-bursts', [Rs, [0, 2]], eval_layout_long,
                            describe='synthetic tables with 126..%d bursts (run lengths cycling through a pattern) x 2 threshold sets x 2 reductions x 2 centrings' % Rs[-1]))
    out.append(ProductSpace('layouts-negative-flanks', [[0, 1, 2, 3]] * 5, eval_layout_neg, min_len=3,
                            describe='every table of 3..5 cycles over kinds with reversed (negative) flank voltages'))
    from bcmc.explore import ListSpace
    out.append(ListSpace('long-recordings', [['@A', 'peak'], ['@A', 'trough'], ['@E', 'peak'], ['@E', 'trough'], ['@D', 'trough']], eval_pipeline_long,
                         describe='long real-valued recordings: recompute_edges against the one-sided definitions and the rule'))
    al = ['a', 'd', 'n']
    L = 7 if q else 8
    out.append(ProductSpace('W(%d,%d)-pipeline' % (len(al), L), S.word_dims(al, L) + [['peak', 'trough']], eval_pipeline,
                            bounds={'letters': al}, describe='pipeline tables of all %d-letter words over %s x 2 centrings x 2 threshold '
                            'sets x 3 reductions, functional and Bycycle.recompute_edges' % (L, al)))
    return out
