"""C11 - compute_features_2d(axis=0) / BycycleGroup.fit return, at position i, the per-signal analysis of row i
with row i's options - for every n_jobs, progress setting and EVERY worker completion order.

The schedule space comes from a TLA+ model of Pool.imap (models/PoolImap.tla) whose reachable states TLC
enumerates; every terminal completion order is replayed against the implementation in a deterministic
VirtualPool (pickle boundary kept) and, for the smaller configurations, re-enacted in real worker
processes by gating task completion (RealGate)."""
import contextlib
import copy
import io
from concurrent.futures import ThreadPoolExecutor

import numpy as np

from bcmc.explore import Space, OK, VIOL, SKIP
from bcmc import spaces as S
from bcmc import sched
from bcmc.ref.table import diff_tables, table_hash

LEVEL = 'model_checking'
RULE = ('tree: configuration (rows, option kind, return_samples, n_jobs, progress, entry point, executor) -> every terminal '
        'completion order of the TLC-explored Pool model for (rows, workers); non-trivial = schedule that is not the '
        'submission order; distinct = distinct (configuration, schedule) cases whose result equals the per-row reference')
ASSUMPTIONS = ['Pool model: FIFO dispatch, at most n_jobs tasks in flight, any in-flight task may complete next '
               '(models/PoolImap.tla); worker start order, preemption inside a task and spawn/forkserver are not modelled',
               'a gate time-out in the real-pool executor is recorded as "order not enforced", never as a violation']

WORDS = ['aabeaa', 'bbadab', 'eadaba', 'daabea', 'abdeab']
FS, FR = 64, (6, 14)
MODEL = {}       # (n, w) -> (orders, info), filled in spaces() before the workers are forked


def row_options(kind, n, flag):
    if kind == 'none':
        return None
    if kind == 'dict':
        return {'center_extrema': 'trough', 'threshold_kwargs': dict(S.T0), 'return_samples': not flag}
    if kind == 'repeat':     # equal (but distinct) dicts in the pattern A, B, A, A, B
        A = {'center_extrema': 'trough', 'threshold_kwargs': dict(S.T0)}
        B = {'burst_method': 'amp', 'threshold_kwargs': dict(S.TA0), 'burst_kwargs': {'amp_threshes': (.5, 1.)}}
        return [copy.deepcopy((A, B, A, A, B)[i % 5]) for i in range(n)]
    if kind == 'alias':      # one dict object repeated for every row
        return [{'center_extrema': 'trough', 'burst_method': 'amp', 'threshold_kwargs': dict(S.TA0),
                 'burst_kwargs': {'amp_threshes': (.5, 1.)}, 'return_samples': not flag}] * n
    rows = [{'threshold_kwargs': dict(S.T0)},
            {'center_extrema': 'trough', 'threshold_kwargs': dict(S.T1), 'return_samples': not flag},
            {'burst_method': 'amp', 'threshold_kwargs': dict(S.TA0), 'burst_kwargs': {'amp_threshes': (.5, 1.)}},
            {'center_extrema': 'trough', 'burst_method': 'amp', 'threshold_kwargs': dict(S.TA1),
             'burst_kwargs': {'amp_threshes': (.5, 1.)}},
            {'threshold_kwargs': dict(S.T1), 'find_extrema_kwargs': {'boundary': 5}}]
    return copy.deepcopy(rows[:n])


def reference(sigs, opts, flag):
    from bycycle.features import compute_features
    out = []
    for i, sig in enumerate(sigs):
        o = {} if opts is None else (opts if isinstance(opts, dict) else opts[i])
        o = copy.deepcopy(o)      # (a deep copy of one row's dict: aliasing between rows is cut here on purpose)
        o.pop('return_samples', None)
        with contextlib.redirect_stdout(io.StringIO()):
            out.append(compute_features(np.array(sig), FS, FR, return_samples=flag, **o))
    return out


def eff_workers(n_jobs, n, ncpu=2):
    nj = ncpu if n_jobs == -1 else n_jobs
    return max(1, min(nj, n))


def configs(tier):
    q = tier == 'quick'
    out = []
    for n in (1, 2, 3, 4) if q else (1, 2, 3, 4, 5):
        for kind in ('none', 'dict', 'list', 'alias'):
            for flag in (True, False):
                for nj in sorted({1, 2, 3, n + 2, -1}, key=lambda v: (v < 0, v)):
                    for prog in (None, 'absent', 'stub'):
                        out.append((n, kind, flag, nj, prog, '2d', 'virtual'))
        for nj in (1, 2, -1, n + 2):
            for flag in (True, False):
                out.append((n, 'shared', flag, nj, None, 'group', 'virtual'))
    for n in (4, 5):
        for nj in (1, 2, 3):
            out.append((n, 'repeat', True, nj, None, '2d', 'virtual'))
    for n in (1, 2, 3, 4) if q else (1, 2, 3, 4, 5):
        for kind in ('none', 'dict', 'list'):
            for nj in (1, 2, 3):
                if nj > n and nj != 1:
                    continue
                out.append((n, kind, True, nj, None, '2d', 'real'))
        out.append((n, 'shared', True, 2, None, 'group', 'real'))
    return out


def call(entry, sigs, opts, flag, nj, prog):
    from bycycle.group import compute_features_2d
    from bycycle import BycycleGroup, Bycycle
    progress = None if prog is None else 'tqdm'
    with sched.tqdm_mode(prog or 'leave'), contextlib.redirect_stdout(io.StringIO()):
        if entry == '2d':
            return compute_features_2d(sigs, FS, FR, compute_features_kwargs=opts, axis=0, return_samples=flag,
                                       n_jobs=nj, progress=progress), None
        # a user edited a nested setting of ANOTHER, unrelated default object before: must not leak into this one
        other = Bycycle(thresholds=dict(S.T0))
        other.find_extrema_kwargs['filter_kwargs']['n_cycles'] = 2
        # constructed with other settings, then the attributes are REBOUND (new objects) before fitting, as in a parameter sweep
        bg = BycycleGroup(center_extrema='peak', thresholds=dict(S.T1), return_samples=not flag)
        bg.center_extrema = 'trough'
        bg.thresholds = dict(S.T0)
        bg.return_samples = flag
        bg.fit(sigs, FS, FR, axis=0, n_jobs=nj, progress=progress)
        return bg.df_features, bg


class Schedules(Space):
    name = 'configs-x-schedules'
    split_depth = 2

    def __init__(self, tier):
        self.cfgs = configs(tier)
        self.describe = ('%d configurations x every terminal completion order of the Pool model; executors: VirtualPool '
                         'and real Pool workers with gated completion' % len(self.cfgs))

    def children(self, node):
        if node == ():
            return [(i,) for i in range(len(self.cfgs))]
        if len(node) == 1:
            n, kind, flag, nj, prog, entry, execu = self.cfgs[node[0]]
            orders, _ = MODEL[(n, eff_workers(nj, n))]
            return [node + (k,) for k in range(len(orders))]
        return []

    def is_case(self, node):
        return len(node) == 2

    def case(self, node):
        n, kind, flag, nj, prog, entry, execu = self.cfgs[node[0]]
        orders, _ = MODEL[(n, eff_workers(nj, n))]
        return {'rows': n, 'options': kind, 'return_samples': flag, 'n_jobs': nj, 'progress': prog, 'entry': entry,
                'executor': execu, 'order': list(orders[node[1]])}

    def bounds(self):
        return {'configurations': len(self.cfgs), 'model': {'%d,%d' % k: v[1] for k, v in sorted(MODEL.items())}}

    def evaluate(self, c):
        n, kind, flag, nj = c['rows'], c['options'], c['return_samples'], c['n_jobs']
        order = list(c['order'])
        sigs = np.array([S.word_signal(w) for w in WORDS[:n]])
        if c['entry'] == 'group':
            sigs = np.array([S.sensitive_signal(i) for i in range(n)])      # rows whose table depends on the filter length
            # channels in very different physical units (e.g. MEG in tesla next to EEG in microvolts): exact power-of-two scales
            sigs = sigs * np.array([1., 2.0 ** -40, 2.0 ** 30, 2.0 ** -45, 2.0 ** -10])[:n, None]
            opts = {'center_extrema': 'trough', 'threshold_kwargs': dict(S.T0)}
            ref = reference(sigs, opts, flag)
            opts_call = None
        else:
            opts = row_options(kind, n, flag)
            if kind == 'none':
                sigs = sigs * np.array([2.0 ** -40, 1., 2.0 ** -45, 2.0 ** 30, 2.0 ** -10])[:n, None]
            ref = reference(sigs, opts, flag)
            opts_call = opts if kind == 'alias' else copy.deepcopy(opts)
        sgn = {'entry': c['entry'], 'executor': c['executor'], 'options': kind}
        extra = {}
        # the same values in C (row-major) or Fortran (column-major) memory layout, e.g. a transposed (samples x channels) recording
        fortran = (n + (nj if nj > 0 else 7) + len(order) + (kind == 'list') + (c['progress'] is not None)) % 2 == 1
        sgn['layout'] = 'F' if fortran else 'C'

        def arr():
            return np.asfortranarray(sigs) if fortran else sigs.copy()
        try:
            if c['executor'] == 'virtual':
                with sched.patched_pool(order):
                    got, obj = call(c['entry'], arr(), opts_call, flag, nj, c['progress'])
                    if sched.VirtualPool.constructed == 0:
                        extra['seam_not_exercised'] = 1
                    if sched.VirtualPool.mismatch:
                        extra['schedule_not_applicable_task_count_differs'] = 1
                    elif sched.VirtualPool.log and sched.VirtualPool.log[-1][2] != tuple(order) and not sched.VirtualPool.mismatch:
                        return {'v': 'error', 'msg': 'VirtualPool enacted %s instead of %s' % (sched.VirtualPool.log, order),
                                'evals': 1, 'traces': 0}
            else:
                keys = [np.ascontiguousarray(s).tobytes() for s in sigs]
                with sched.RealGate(keys, order) as g:
                    got, obj = call(c['entry'], arr(), opts_call, flag, nj, c['progress'])
                    seen, timeouts = g.observed()
                if timeouts or seen != tuple(order):
                    extra['order_not_enforced'] = 1
                else:
                    extra['order_enforced_in_real_workers'] = 1
        except sched.HarnessError:
            raise
        except Exception as e:      # noqa
            import traceback
            return VIOL(dict(sgn, kind='raise', exc=type(e).__name__), 'group analysis raised %s: %s' % (type(e).__name__, str(e)[:150]),
                        observed={'case': c, 'tb': traceback.format_exc()[-1200:]})
        if not isinstance(got, list) or len(got) != n:
            return VIOL(dict(sgn, kind='length'), 'result is not a list of %d tables' % n, observed=c)
        for i in range(n):
            dd = diff_tables(got[i], ref[i])
            if dd:
                where = [j for j in range(n) if diff_tables(got[i], ref[j]) is None]
                return VIOL(dict(sgn, kind='position', identity_schedule=order == sorted(order)),
                            'entry %d is not the per-signal analysis of row %d with its options (%s); it equals the analysis of '
                            'row(s) %s' % (i, i, dd, where), observed=c)
        if obj is not None:
            if len(obj.models) != n:
                return VIOL(dict(sgn, kind='models'), 'BycycleGroup.models has the wrong length', observed=c)
            for i in range(n):
                if diff_tables(obj.models[i].df_features, ref[i]) or not np.array_equal(obj.models[i].sig, sigs[i]) \
                        or obj[i] is not obj.models[i]:
                    return VIOL(dict(sgn, kind='models'), 'BycycleGroup.models[%d] does not mirror row %d' % (i, i), observed=c)
        return OK(outcome=(c['rows'], kind, flag, nj, c['progress'], c['entry'], c['executor'], tuple(order)),
                  nontrivial=order != sorted(order), extra=extra or None,
                  sample={'tables': [len(g) for g in got]} if order != sorted(order) else None)


def big_rows(kind):
    """(sigs, fs, f_range): 'many' = 12 short rows; 'large' = 16 rows of 8200 samples cut from a long recording (1.05 MB)."""
    if kind == 'many':
        ws = [WORDS[i % 5][i % 3:] + WORDS[i % 5][:i % 3] for i in range(12)]
        return np.array([S.word_signal(w) * (1. + i) for i, w in enumerate(ws)]), 64, (6, 14)
    x = S.long_signal('@B')
    return np.array([x[i * 4000:i * 4000 + 8200] for i in range(16)]), 1000, (13, 30)


def data_threshold(df, side):
    """A threshold ONE floating-point step below / above the amp_consistency of a bursting cycle whose value has many decimals:
    any rounding of the thresholds on the way to the workers flips that cycle's label for one of the two sides."""
    for i in np.flatnonzero(df['is_burst'].to_numpy()):
        v = float(df['amp_consistency'].iloc[i])
        if v == v and .5 < v < 1 and abs(round(v, 6) - v) > 1e-9:
            return float(np.nextafter(v, -1.0 if side == 'below' else 2.0))
    return None


def eval_big(case):
    """MORE THAN TEN rows (position labels with two digits), arrays larger than 1 MB, per-row option lists, thresholds taken from the
    data: every table (and every model) against the per-signal analysis of its own row.  One worker (identity schedule)."""
    from bycycle.features import compute_features
    from bycycle.group import compute_features_2d
    from bycycle import BycycleGroup
    kind, entry, optkind = case
    sigs, fs, fr = big_rows(kind)
    n = len(sigs)
    base = {'center_extrema': 'trough', 'threshold_kwargs': dict(S.T0)}
    if optkind.startswith('data'):
        t0 = compute_features(sigs[0].copy(), fs, fr, **copy.deepcopy(base))
        thr = data_threshold(t0, optkind[5:])
        if thr is None:
            return SKIP('no suitable cycle for a data-derived threshold')
        base['threshold_kwargs']['amp_consistency_threshold'] = thr
    ctor = None
    if optkind == 'amp-both':      # amplitude method, min_n_cycles given in the burst options AND (differently) in the thresholds
        base = {'burst_method': 'amp', 'threshold_kwargs': {'burst_fraction_threshold': .5, 'min_n_cycles': 4},
                'burst_kwargs': {'amp_threshes': (.5, 1.), 'min_n_cycles': 2}}
        ctor = dict(burst_method='amp', thresholds=dict(base['threshold_kwargs']), burst_kwargs=dict(base['burst_kwargs']))
    elif optkind == 'short':       # thresholds given to the object by their short names (partly): same analysis as the full names
        base = {'center_extrema': 'trough', 'threshold_kwargs': dict(S.T0, monotonicity_threshold=.35, amp_consistency_threshold=.3)}
        ctor = dict(center_extrema='trough', thresholds={'amp_fraction': 0., 'amp_consistency': .3, 'period_consistency_threshold': .5,
                                                         'monotonicity': .35, 'min_n_cycles': 2})
    if optkind == 'list':
        rows = row_options('list', 5, True)
        opts = [copy.deepcopy(rows[i % 5]) for i in range(n)]
    else:
        opts = base
    ref = []
    for i in range(n):
        o = copy.deepcopy(opts[i] if isinstance(opts, list) else opts)
        o.pop('return_samples', None)
        ref.append(compute_features(sigs[i].copy(), fs, fr, return_samples=True, **o))
    sgn = {'entry': entry, 'rows': n, 'options': optkind, 'big': kind}
    obj = None
    try:
        with sched.patched_pool(None), contextlib.redirect_stdout(io.StringIO()):
            if entry == '2d':
                got = compute_features_2d(sigs.copy(), fs, fr, compute_features_kwargs=copy.deepcopy(opts), axis=0, return_samples=True, n_jobs=1)
            else:
                bg = BycycleGroup(**ctor) if ctor else BycycleGroup(center_extrema='trough', thresholds=dict(base['threshold_kwargs']))
                bg.fit(sigs.copy(), fs, fr, axis=0, n_jobs=1)
                got, obj = bg.df_features, bg
    except Exception as e:      # noqa
        return VIOL(dict(sgn, kind='raise', exc=type(e).__name__), 'group analysis raised %s: %s' % (type(e).__name__, str(e)[:150]))
    if not isinstance(got, list) or len(got) != n:
        return VIOL(dict(sgn, kind='length'), 'result is not a list of %d tables' % n)
    for i in range(n):
        dd = diff_tables(got[i], ref[i])
        if dd:
            where = [j for j in range(n) if diff_tables(got[i], ref[j]) is None]
            return VIOL(dict(sgn, kind='position'), 'entry %d is not the per-signal analysis of row %d with its options (%s); it equals the analysis '
                        'of row(s) %s' % (i, i, dd, where))
    if obj is not None:
        if len(obj.models) != n:
            return VIOL(dict(sgn, kind='models'), 'BycycleGroup.models has the wrong length')
        for i in range(n):
            if diff_tables(obj.models[i].df_features, ref[i]) or not np.array_equal(obj.models[i].sig, sigs[i]):
                return VIOL(dict(sgn, kind='models'), 'BycycleGroup.models[%d] does not mirror row %d' % (i, i))
    return OK(outcome=(kind, entry, optkind), nontrivial=True, evals=n)


def prepare_model(pairs):
    with ThreadPoolExecutor(8) as tp:
        for k, v in zip(pairs, tp.map(lambda p: sched.model_orders(*p), pairs)):
            MODEL[k] = v


def spaces(tier, seed):
    cfgs = configs(tier)
    pairs = sorted({(c[0], eff_workers(c[3], c[0])) for c in cfgs})
    prepare_model(pairs)
    from bcmc.explore import ListSpace
    big = [[k, e, o] for k in ('many', 'large') for e, os_ in (('2d', ('dict', 'list', 'amp-both')), ('group', ('dict', 'data-below', 'data-above', 'amp-both', 'short'))) for o in os_]
    return [Schedules(tier), ListSpace('big-groups', big, eval_big,
                                       describe='12 short rows / 16 rows of 8200 samples (array > 1 MB) x 2-D function and BycycleGroup x shared dict, '
                                                'per-row list, thresholds one floating-point step from a data value')]


def run_extra(tier, seed, jobs, log):
    st = sum(v[1]['states'] for v in MODEL.values())
    tr = sum(v[1]['transitions'] for v in MODEL.values())
    engines = sorted({v[1]['engine'] for v in MODEL.values()})
    log('  Pool model: %d (N,W) instances, engines %s, %d states, %d transitions, %d terminal traces'
        % (len(MODEL), engines, st, tr, sum(v[1]['terminal'] for v in MODEL.values())))
    return [{'name': 'tlc:PoolImap', 'describe': 'reachable states of the TLA+ Pool.imap model per (N, W), explored by ' + '/'.join(engines),
             'states': st, 'transitions': tr, 'cases': 0, 'evals': 0, 'skipped': 0, 'traces': 0, 'nviol': 0,
             'bounds': {'instances': {'%d,%d' % k: v[1] for k, v in sorted(MODEL.items())}}, 'model': 'models/PoolImap.tla'}]
