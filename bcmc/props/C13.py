"""C13 - epoched (axis=None) analysis partitions the flattened analysis.

Spaces: (i) epoch_df on every synthetic tiling cyclepoint table (tree over side-extremum positions,
both centrings) x every epoch length 1..T (boundaries equal to a closing extremum, epochs without
cycles, ragged last epoch); (ii) compute_features_2d(axis=None) on every word reshaped into epochs of
4..24 samples x {None, dict, per-epoch list with alternating thresholds} x both methods x both centrings."""
import copy

import numpy as np
import pandas as pd

from bcmc.explore import Space, ProductSpace, OK, VIOL, SKIP
from bcmc import spaces as S
from bcmc.pipe import sample_cols
from bcmc.ref.epoch import ref_epoched
from bcmc.ref.table import diff_tables, table_hash
from bcmc.props.C18 import mk_table

LEVEL = 'model_checking'
RULE = ('tree over side-extremum positions (every node with >= 2 cycles is a table, evaluated for every epoch length) and '
        'word tree x (epoch length, option kind, method, centring); non-trivial = >= 2 non-empty epochs; distinct = '
        'distinct (input, per-epoch row sets)')
ASSUMPTIONS = ['"the epoch containing its closing side extremum" is read as the anchored mechanism states it: epoch e holds the cycles '
               'whose closing extremum c satisfies e*E < c <= (e+1)*E (half-open (first, last]), also when c lies exactly on a border',
               'the flattened analysis itself is trusted here (it is decided by C01-C07)']


class EpochTables(Space):
    def __init__(self, T, maxc):
        self.T, self.maxc = T, maxc
        self.name = 'epoch_df-T%d' % T
        self.split_depth = 2
        self.describe = 'every tiling table with 2..%d cycles on [1,%d) x 2 centrings x every epoch length 1..%d' % (maxc, T, T)

    def children(self, node):
        if len(node) >= self.maxc + 1:
            return []
        start = node[-1] + 2 if node else 1
        return [node + (p,) for p in range(start, self.T)]

    def is_case(self, node):
        return len(node) >= 3

    def bounds(self):
        return {'T': self.T, 'max_cycles': self.maxc}

    def evaluate(self, case):
        from bycycle.utils import epoch_df
        sides, T = list(case), self.T
        nev, nt, outs = 0, False, []
        for centre in ('peak', 'trough'):
            df = mk_table(sides, centre)
            if sum(sides) % 4 == 1:
                df['Label'] = 'chan-1'
                df = df[list(df.columns[::-1])]
            ik = (sum(sides) + (centre == 'trough')) % 3      # row labels: default / offset (a slice, limit_df output) / duplicate
            if ik == 1:
                df.index = range(9, 9 + len(df))
            elif ik == 2:
                df.index = [i % 2 for i in range(len(df))]
            sc = sample_cols(centre)
            closing = df[sc['next']].tolist()
            for E in range(1, T + 1):
                nev += 1
                sgn = {'site': 'epoch_df', 'centre': centre, 'index': ('default', 'offset', 'duplicate')[ik]}
                obs = {'sides': sides, 'sig_len': T, 'epoch_len': E}
                try:
                    out = epoch_df(df.copy(), T, E)
                except Exception as e:      # noqa
                    return VIOL(dict(sgn, kind='raise', exc=type(e).__name__), 'epoch_df raised %s: %s' % (type(e).__name__, e),
                                observed=obs, evals=nev)
                n_ep = -(-T // E)
                if len(out) != n_ep:
                    return VIOL(dict(sgn, kind='n-epochs'), 'expected %d epochs, got %d' % (n_ep, len(out)), observed=obs, evals=nev)
                seen = []
                for e, o in enumerate(out):
                    if set(o.columns) != set(df.columns):
                        return VIOL(dict(sgn, kind='columns'), 'columns changed', observed=obs, evals=nev)
                    for pos in range(len(o)):
                        j = int(o['volt_amp'].iloc[pos]) - 1
                        seen.append(j)
                        c = closing[j]
                        okslot = e * E < c <= (e + 1) * E          # half-open (first, last]: the anchored assignment rule
                        if not okslot:
                            return VIOL(dict(sgn, kind='wrong-epoch'), 'cycle with closing extremum %d placed in epoch %d (length %d)' % (c, e, E),
                                        observed=obs, evals=nev)
                        for col in df.columns:
                            exp = df[col].iloc[j] - e * E if col.startswith('sample_') else df[col].iloc[j]
                            if o[col].iloc[pos] != exp:
                                return VIOL(dict(sgn, kind='value', sample=col.startswith('sample_')),
                                            'epoch %d row %d column %s = %r, expected %r' % (e, pos, col, o[col].iloc[pos], exp),
                                            observed=obs, evals=nev)
                if seen != list(range(len(df))):
                    return VIOL(dict(sgn, kind='partition'), 'rows lost, duplicated or reordered: %s' % seen, observed=obs, evals=nev)
                nt = nt or sum(1 for o in out if len(o)) >= 2
                outs.append(tuple(len(o) for o in out))
        return OK(outcome=(tuple(sides), hash(tuple(outs))), nontrivial=nt, evals=nev)


THR2 = dict(S.T0, monotonicity_threshold=.4, min_n_cycles=1)
CONFIGS = [(E, kind, method, centre) for E in (4, 8, 12, 16, 24) for kind in ('none', 'dict', 'list', 'alias', 'sparse')
           for method in ('cycles', 'amp') for centre in ('peak', 'trough')]


def build_kwargs(kind, method, centre, n):
    if kind == 'none':
        return None
    base = {'burst_method': method, 'center_extrema': centre,
            'threshold_kwargs': dict(S.T0) if method == 'cycles' else dict(S.TA0)}
    if method == 'amp':
        base['burst_kwargs'] = {'amp_threshes': (.5, 1.)}
    if kind == 'dict':
        return base
    if kind == 'sparse':
        # entries 1, 2 mod 4 give no thresholds (defaults apply there), entry 0 is strict, entry 3 lenient
        strict = dict(S.T0, monotonicity_threshold=.95, amp_consistency_threshold=.9)
        lst = []
        for i in range(n):
            e = {'burst_method': method, 'center_extrema': centre}
            if i % 4 == 0:
                e['threshold_kwargs'] = dict(strict) if method == 'cycles' else {'burst_fraction_threshold': .4, 'min_n_cycles': 2}
            elif i % 4 == 3:
                e['threshold_kwargs'] = dict(THR2) if method == 'cycles' else dict(S.TA1)
            elif i % 4 == 2 and method == 'cycles':
                e = {'center_extrema': centre}       # (for 'amp' the method must stay: the default method is 'cycles')
            lst.append(e)
        return lst
    if kind == 'lastdiff':
        lst = [copy.deepcopy(base) for _ in range(n)]
        lst[-1]['find_extrema_kwargs'] = {'filter_kwargs': {'n_cycles': 2}, 'boundary': 3}
        if method == 'amp':
            lst[-1]['burst_kwargs'] = {'amp_threshes': (.25, .5)}
        lst[-1]['threshold_kwargs'] = dict(THR2) if method == 'cycles' else dict(S.TA1)
        return lst
    if kind == 'alias':
        # the same option set for every epoch, written the short way: ONE dict object repeated n times
        base['threshold_kwargs'] = dict(THR2) if method == 'cycles' else dict(S.TA1)
        return [base] * n
    alt = copy.deepcopy(base)
    alt['threshold_kwargs'] = dict(THR2, amp_fraction_threshold=.3) if method == 'cycles' else dict(S.TA1)
    return [copy.deepcopy(base) if i % 2 == 0 else copy.deepcopy(alt) for i in range(n)]


def eval_word(case):
    from bycycle.group import compute_features_2d
    letters, cfg = case[:-1], case[-1]
    E, kind, method, centre = cfg[:4]
    fs = cfg[4] if len(cfg) > 4 else 64             # other declared sampling rates (same samples, band scaled alike)
    fr = (6, 14) if fs == 64 else (6 * fs / 64, 14 * fs / 64)
    w = ''.join(letters)
    sig = S.word_signal(w)
    if len(sig) % E or (kind == 'none' and (method, centre) != ('cycles', 'peak')) or False:
        return SKIP('length not a multiple of the epoch length' if len(sig) % E else 'duplicate configuration')
    sigs = sig.reshape(-1, E)
    n = sigs.shape[0]
    if n < 2:
        return SKIP('single epoch')
    kw = build_kwargs(kind, method, centre, n)
    try:
        ref, flags, flat = ref_epoched(sigs, fs, fr, [copy.deepcopy(k) for k in kw] if isinstance(kw, list) else copy.deepcopy(kw))
    except Exception:      # noqa
        return SKIP('flattened analysis precondition')
    if len(flat) < 2:
        return SKIP('fewer than 2 cycles')
    sgn = {'site': 'compute_features_2d(axis=None)', 'options': kind, 'method': method}
    obs = {'word': w, 'epoch_len': E, 'centre': centre, 'fs': fs}
    layout = 'F' if (sum(map(ord, w)) + E + (kind == 'list') + (method == 'amp') + (centre == 'trough')) % 2 else 'C'
    arg = sigs.copy() if layout == 'C' else np.asfortranarray(sigs)      # same values, column-major memory layout
    sgn['layout'] = layout
    try:
        arg_kw = kw if kind == 'alias' else copy.deepcopy(kw)
        got = compute_features_2d(arg, fs, fr, arg_kw, axis=None)
        if isinstance(arg_kw, list) and centre == 'trough':
            # the caller's option list passed a second time (the same objects): the second answer is the one compared below
            first, got = got, compute_features_2d(arg, fs, fr, arg_kw, axis=None)
            sgn['second_call_same_list'] = True
            if len(first) != len(got) or any(diff_tables(a, b) for a, b in zip(first, got)):
                return VIOL(dict(sgn, kind='epoch-table', col='other', epoch0=False),
                            'the same call repeated with the same option list gives different epoch tables', observed=obs)
    except Exception as e:      # noqa
        return VIOL(dict(sgn, kind='raise', exc=type(e).__name__, empty_epoch=any(len(r) == 0 for r in ref)),
                    'compute_features_2d(axis=None) raised %s: %s' % (type(e).__name__, str(e)[:120]), observed=obs)
    if len(got) != n:
        return VIOL(dict(sgn, kind='n-epochs'), 'expected %d epochs, got %d' % (n, len(got)), observed=obs)
    for e in range(n):
        dd = diff_tables(got[e], ref[e])
        if dd:
            col = dd.split()[1] if dd.startswith('column ') else '?'
            return VIOL(dict(sgn, kind='epoch-table', col=col if col == 'is_burst' else 'other', epoch0=e == 0),
                        'epoch %d differs from the partition of the flattened analysis: %s' % (e, dd), observed=obs)
    return OK(outcome=(w, E, kind, method, centre, fs, tuple(table_hash(g) for g in got)),
              nontrivial=sum(1 for r in ref if len(r)) >= 2 and (kind in ('none', 'dict') or any(r['is_burst'].any() for r in ref if len(r))))


def eval_long_table(case):
    """epoch_df on a LONG synthetic tiling table (more than 1000 cycles) whose closing extrema fall on, just before and just after
    epoch borders: every row exactly once, in the epoch its closing extremum lies in, shifted by that epoch's start."""
    from bycycle.utils import epoch_df
    n_cyc, period, E, centre = case
    sides = [1 + period * i + (i * 7) % 3 for i in range(n_cyc + 1)]      # slightly irregular cycle lengths
    T = sides[-1] + 5
    df = mk_table(sides, centre)
    sc = sample_cols(centre)
    closing = df[sc['next']].tolist()
    out = epoch_df(df.copy(), T, E)
    sgn = {'site': 'epoch_df', 'centre': centre, 'long': True}
    n_ep = -(-T // E)
    if len(out) != n_ep:
        return VIOL(dict(sgn, kind='n-epochs'), 'expected %d epochs, got %d' % (n_ep, len(out)))
    seen = []
    on_border = 0
    for e, o in enumerate(out):
        for pos in range(len(o)):
            j = int(o['volt_amp'].iloc[pos]) - 1
            seen.append(j)
            c = closing[j]
            on_border += c % E == 0
            if not (e * E < c <= (e + 1) * E):
                return VIOL(dict(sgn, kind='wrong-epoch'), 'cycle %d with closing extremum %d placed in epoch %d (length %d)' % (j, c, e, E))
            if int(o[sc['next']].iloc[pos]) != c - e * E or int(o[sc['centre']].iloc[pos]) != int(df[sc['centre']].iloc[j]) - e * E:
                return VIOL(dict(sgn, kind='value', sample=True), 'cycle %d in epoch %d: sample columns are not relative to the epoch start' % (j, e))
    if seen != list(range(len(df))):
        return VIOL(dict(sgn, kind='partition'), 'rows lost, duplicated or reordered (%d of %d rows returned)' % (len(seen), len(df)))
    return OK(outcome=(n_cyc, period, E, centre), nontrivial=on_border > 0, evals=1)


def spaces(tier, seed):
    q = tier == 'quick'
    out = [EpochTables(12, 4)]
    long_q = [(40, 'list', 'cycles', 'peak'), (40, 'list', 'cycles', 'trough'), (40, 'list', 'amp', 'peak'),
              (40, 'alias', 'cycles', 'peak'), (40, 'alias', 'amp', 'trough'), (40, 'sparse', 'cycles', 'peak'),
              (40, 'sparse', 'cycles', 'trough'), (40, 'dict', 'cycles', 'trough'), (40, 'sparse', 'amp', 'peak'),
              (40, 'lastdiff', 'cycles', 'peak'), (40, 'lastdiff', 'amp', 'trough'), (20, 'lastdiff', 'cycles', 'trough'), (20, 'sparse', 'amp', 'trough')]
    out.append(ProductSpace('W(2,10)-long-epochs', S.word_dims(['a', 'd'], 10) + [long_q], eval_word,
                            describe='10-letter words (80 samples) in 2 epochs of 40 samples: epochs long enough (>= 3 cycles) for '
                                     'per-epoch thresholds to change labels', bounds={'configs': len(long_q)}))
    cfg = [c for c in CONFIGS if c[0] in (8, 12, 16) and (c[1] in ('none', 'dict', 'list') or (c[1] == 'alias' and c[0] == 12))]
    from bcmc.explore import ListSpace
    lt = [[n, p, E, c] for n in ((40, 1100) if tier == 'quick' else (40, 600, 1100, 2100)) for p in (8, 50) for E in (p_ * k for p_ in (8, 50) for k in (1, 3, 10))
          for c in ('peak', 'trough')]
    out.append(ListSpace('epoch_df-long-tables', lt, eval_long_table,
                         describe='epoch_df on synthetic tables of 40 / 1100 (2100) cycles x cycle length 8 / 50 x 6 epoch lengths x 2 centrings'))
    rates = [(E, kind, 'cycles', c, fs) for fs in (49, 1017.25, 173.61, 9.8, 250.) for E in (4, 6, 8, 12, 16, 24) for kind, c in (('dict', 'peak'), ('list', 'trough'))]
    out.append(ProductSpace('W(2,6)-rates-x-epochs', S.word_dims(['a', 'd'], 6) + [rates], eval_word,
                            describe='6-letter words declared at fs 49 / 1017.25 / 173.61 / 9.8 / 250 Hz x every epoch length dividing 48 samples '
                                     '(sample-count <-> seconds round trips)'))
    al = S.alphabet(3)
    out.append(ProductSpace('W(3,6)-epoched', S.word_dims(al, 6) + [cfg], eval_word, bounds={'letters': al, 'configs': len(cfg)},
                            describe='all 6-letter words (48 samples) reshaped into epochs of 8/12/16 samples x option kinds x methods x centrings'))
    al = S.alphabet(2)
    cfg = [c for c in CONFIGS if c[0] in (4, 24)]
    out.append(ProductSpace('W(2,6)-epoched', S.word_dims(al, 6) + [cfg], eval_word, bounds={'letters': al, 'configs': len(cfg)},
                            describe='same with epochs of 4 and 24 samples'))
    if not q:
        out.append(EpochTables(14, 5))
        long_cfg = [(E, kind, method, centre) for E in (32, 48) for kind in ('list', 'alias', 'sparse', 'dict')
                    for method in ('cycles', 'amp') for centre in ('peak', 'trough')]
        out.append(ProductSpace('W(2,12)-long-epochs', S.word_dims(['a', 'd'], 12) + [long_cfg], eval_word, bounds={'configs': len(long_cfg)}))
        out.append(ProductSpace('W(3,6)-epoched-all', S.word_dims(S.alphabet(3), 6) + [CONFIGS], eval_word, bounds={'configs': len(CONFIGS)},
                                describe='every epoch length x every option kind x methods x centrings'))
        al = ['a', 'd', 'n', 'z', 's', 'l']
        cfg = [c for c in CONFIGS if c[0] in (8, 12) and c[1] in ('dict', 'list')]
        out.append(ProductSpace('W(6,5)-epoched', S.word_dims(al, 5) + [cfg], eval_word, bounds={'letters': al, 'configs': len(cfg)},
                                describe='5-letter words incl. 6- and 10-sample letters (varying lengths; non-multiples skipped)'))
    return out
