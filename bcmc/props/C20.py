"""C20 - plots draw the analysis they are given.

Space: tables of bursty words x centring x method x fs in {64, 100} x x-limits in {None} + every pair of
sample times on a grid (incl. windows without a complete cycle and, for fs = 100, the start samples whose
time * fs rounds below the integer) x plot kind: plot_cyclepoints_df with all 8 switch combinations,
plot_cyclepoints_array with every subset of the four kinds, plot_burst_detect_summary x plot_only_result x
interp, Bycycle.plot.  Oracle: Line2D data read back under Agg."""
import itertools
import math

import numpy as np

from bcmc.explore import ProductSpace, OK, VIOL, SKIP
from bcmc import spaces as S
from bcmc.pipe import sample_cols

LEVEL = 'model_checking'
RULE = ('product tree: word x (centring, method, fs) x window x plot kind; every leaf draws one figure and reads its artists '
        'back; non-trivial = window that cuts through the table (some but not all cyclepoints inside); distinct = distinct '
        '(table, window, plot kind, artist data hash)')
ASSUMPTIONS = ['artist data under the Agg backend is inspected, not pixels', 'x-limits are sample times times[a], times[b] of '
               'np.arange(0, n/fs, 1/fs) (the time axis the plotting functions themselves use)',
               'view = samples a <= s < b; "strictly inside" = a < s < b - 1']

WORDS_Q = ['aadaaazzaa', 'bbnbbdabbb', 'aaeaadnaab', 'dadaaaabnz', 'wwawwdwwaw']      # the last: saw-tooth cycles whose decay flank is ONE sample long (a zero-crossing on an extremum sample)
TABCFG = [('peak', 'cycles', 64), ('trough', 'cycles', 64), ('peak', 'cycles', 100), ('trough', 'cycles', 100),
          ('peak', 'amp', 64), ('trough', 'amp', 100)]
# thresholds that two decimals cannot represent (as they come out of a grid search): a line drawn at a rounded value shows
THR = dict(S.T0, amp_fraction_threshold=.125, amp_consistency_threshold=.4375, period_consistency_threshold=.515625, monotonicity_threshold=.609375)
THRA = {'burst_fraction_threshold': .46875, 'min_n_cycles': 2}
_CACHE = {}


def band(fs):
    return {64: (6, 14), 100: (9.375, 21.875), 1000: (13, 30)}[fs]


def table(word, centre, method, fs):
    from bycycle.features import compute_features
    key = (word, centre, method, fs)
    if key not in _CACHE:
        sig = S.word_signal(word)
        if method == 'cycles':
            df = compute_features(sig, fs, band(fs), center_extrema=centre, threshold_kwargs=dict(THR))
        else:
            df = compute_features(sig, fs, band(fs), center_extrema=centre, burst_method='amp', threshold_kwargs=dict(THRA),
                                  burst_kwargs={'amp_threshes': (.5, 1.)})
        _CACHE[key] = (sig, df)
    sig, df = _CACHE[key]
    return sig.copy(), df.copy()


def windows(N, step, fs):
    g = list(range(0, N, step))
    if fs == 100:
        g = sorted(set(g) | {29, 57, 58})
    w = [None] + [(a, b) for a, b in itertools.combinations(g, 2) if b - a >= 2]
    return w


def kinds_of(df, centre):
    sc = sample_cols(centre)
    return {'centre': set(df[sc['centre']].tolist()),
            'side': set(df[sc['last']].tolist()) | set(df[sc['next']].tolist()),
            'rise': set(df['sample_zerox_rise'].tolist()), 'decay': set(df['sample_zerox_decay'].tolist())}


def check_markers(lines, slots, kinds, times, ysig, fs, lo, hi, sgn, require_all=True):
    """lines: Line2D list for the marker slots (same order as ``slots``)."""
    if len(lines) != len(slots):
        return VIOL(dict(sgn, kind='n-lines'), 'expected %d marker lines, found %d' % (len(slots), len(lines)))
    for ln, k in zip(lines, slots):
        xs = np.asarray(ln.get_xdata(), dtype=float)
        ys = np.asarray(ln.get_ydata(), dtype=float)
        samp = np.rint(xs * fs).astype(int)
        for x, y, s in zip(xs, ys, samp):
            if s not in kinds[k] or s < 0 or s >= len(times) or abs(x - times[s]) > 1e-9 or y != ysig[s]:
                return VIOL(dict(sgn, kind='bad-marker', slot=k),
                            '%s marker at (%.6f, %r): sample %d is not a %s cyclepoint at (sample/fs, plotted signal)' % (k, x, y, s, k),
                            observed={'marker_samples': samp.tolist(), 'genuine': sorted(kinds[k])})
        must = {s for s in kinds[k] if lo < s < hi - 1}
        if require_all and not must <= set(samp.tolist()):
            return VIOL(dict(sgn, kind='missing-marker', slot=k), '%s cyclepoints %s strictly inside the view are not drawn'
                        % (k, sorted(must - set(samp.tolist()))), observed={'marker_samples': samp.tolist()})
    return None


def evaluate(case):
    import matplotlib.pyplot as plt
    from scipy.stats import zscore
    from bycycle.plts import plot_cyclepoints_df, plot_cyclepoints_array, plot_burst_detect_summary
    from bycycle import Bycycle
    word, (centre, method, fs), win, pk = case
    sig, df = table(word, centre, method, fs)
    N = len(sig)
    times = np.arange(0, N / fs, 1 / fs)
    xlim = None if win is None else (times[win[0]], times[win[1]])
    lo, hi = (0, N) if win is None else (win[0], win[1])
    kinds = kinds_of(df, centre)
    sc = sample_cols(centre)
    sgn = {'plot': pk[0], 'centre': centre, 'fs': fs, 'start_sample': None if win is None else win[0]}
    allpts = set().union(*kinds.values())
    nt = any(lo < s < hi - 1 for s in allpts) and not all(lo < s < hi - 1 for s in allpts)
    try:
        if pk[0] == 'cp_df':
            _, psig, pext, pzx = pk
            fig, ax = plt.subplots()
            plot_cyclepoints_df(df, sig, fs, plot_sig=psig, plot_extrema=pext, plot_zerox=pzx, xlim=xlim, ax=ax)
            lines = list(ax.lines)
            if psig:
                sl = lines[0]
                xs = np.asarray(sl.get_xdata(), float)
                ss = np.rint(xs * fs).astype(int)
                if ss.tolist() != list(range(lo, hi)) or not np.array_equal(np.asarray(sl.get_ydata(), float), sig[lo:hi]):
                    return VIOL(dict(sgn, kind='signal-trace'), 'plotted signal is not the samples of the view')
                lines = lines[1:]
            slots = (['centre', 'side'] if pext else []) + (['rise', 'decay'] if pzx else [])
            v = check_markers(lines, slots, kinds, times, sig, fs, lo, hi, sgn)
            if v:
                return v
            h = hash(tuple(tuple(np.asarray(l.get_xdata()).tolist()) for l in lines))
        elif pk[0] == 'cp_arr':
            sub = pk[1]
            arrs = {'centre': np.array(sorted(kinds['centre'])), 'side': np.array(sorted(kinds['side'])),
                    'rise': np.array(sorted(kinds['rise'])), 'decay': np.array(sorted(kinds['decay']))}
            order = ['centre', 'side', 'rise', 'decay']
            kw = dict(zip(['peaks', 'troughs', 'rises', 'decays'], [arrs[k] if k in sub else None for k in order]))
            fig, ax = plt.subplots()
            plot_cyclepoints_array(sig, fs, xlim=xlim, ax=ax, **kw)
            lines = list(ax.lines)[1:]
            slots = [k for k in order if k in sub]
            v = check_markers(lines, slots, kinds, times, sig, fs, lo, hi, sgn)
            if v:
                return v
            h = hash(tuple(tuple(np.asarray(l.get_xdata()).tolist()) for l in lines))
        else:
            _, only, interp, via = pk
            thr = dict(THR) if method == 'cycles' else dict(THRA)
            z = zscore(sig)
            if via == 'object':
                # thresholds handed to the object in shorthand spelling and / or another key order (the object stores them
                # under the full names, in whatever order results)
                variant = (sum(map(ord, word)) + (0 if win is None else win[0])) % 3
                if variant == 1:
                    given = {k.replace('_threshold', ''): v for k, v in thr.items()}
                elif variant == 2:
                    given = dict(reversed(list(thr.items())))
                else:
                    given = dict(thr)
                bm = Bycycle(center_extrema=centre, burst_method=method, thresholds=given,
                             burst_kwargs={'amp_threshes': (.5, 1.)} if method == 'amp' else None)
                bm.load(df, sig, fs, band(fs))
                bm.plot(xlim=xlim, plot_only_results=only, interp=interp)
            else:
                plot_burst_detect_summary(df, sig, fs, thr, xlim=xlim, plot_only_result=only, interp=interp)
            fig = plt.gcf()
            axes = fig.axes
            L0 = list(axes[0].lines)
            labels = [l.get_label() for l in L0]
            if 'Bursts' not in labels:
                return VIOL(dict(sgn, kind='no-burst-line'), 'no "Bursts" line in the top panel')
            bl = L0[labels.index('Bursts')]
            x = np.asarray(bl.get_xdata(), float)
            y = bl.get_ydata(orig=True)
            mask = np.ma.getmaskarray(y)
            samp = np.rint(x * fs).astype(int)
            if samp.tolist() != list(range(lo, hi)):
                return VIOL(dict(sgn, kind='trace-samples'), 'burst trace does not cover exactly the samples of the view',
                            observed={'first': samp[:3].tolist(), 'n': len(samp), 'view': [lo, hi]})
            hl = set(samp[~mask].tolist())
            allowed, required = set(), set()
            for a, b, isb in zip(df[sc['last']], df[sc['next']], df['is_burst']):
                if isb:
                    s = set(range(int(a), int(b) + 1))
                    allowed |= s
                    if a >= lo and b < hi:
                        required |= s
            if not hl <= allowed:
                return VIOL(dict(sgn, kind='highlight-not-burst'), 'highlighted samples %s are not in any is_burst cycle'
                            % sorted(hl - allowed)[:10], observed={'highlighted': sorted(hl)})
            if not required <= hl:
                return VIOL(dict(sgn, kind='highlight-missing'), 'samples %s of is_burst cycles entirely inside the view are '
                            'not highlighted' % sorted(required - hl)[:10], observed={'highlighted': sorted(hl)})
            yv = np.asarray(np.ma.getdata(y), float)
            if not np.allclose(yv[~mask], z[samp[~mask]], rtol=1e-12, atol=1e-12):
                return VIOL(dict(sgn, kind='highlight-y'), 'highlighted trace is not the plotted (normalised) signal')
            mk = [l for l in L0 if l.get_label() not in ('Signal', 'Bursts')]
            v = check_markers(mk, ['centre', 'side'], kinds, times, z, fs, lo, hi, sgn, require_all=False)
            if v:
                return v
            h = hash((tuple(sorted(hl)),))
            if not only:
                keys = [k for k in thr if k != 'min_n_cycles']
                if len(axes) != len(keys) + 1:
                    return VIOL(dict(sgn, kind='n-panels'), 'expected %d parameter panels, found %d' % (len(keys), len(axes) - 1))
                # which parameter a panel shows is decided from its data: the plotted values must be the values of exactly the
                # column it claims (label texts are not part of the property and are not compared)
                cols = [k.replace('_threshold', '') for k in keys]
                shown = []
                for ax in axes[1:]:
                    ys = np.asarray(ax.lines[0].get_ydata(), dtype=float)
                    ys = ys if interp else ys[0::2]
                    cand = []
                    for c in cols:
                        vals = set(np.round(df[c].to_numpy()[~np.isnan(df[c].to_numpy())], 12).tolist())
                        if all((v != v) or (round(float(v), 12) in vals) for v in ys):
                            cand.append(c)
                    lab = ax.get_ylabel().split('\n')[0].strip().lower().replace(' ', '_')
                    pick = lab if lab in cand else (cand[0] if cand else None)
                    if pick is None:
                        return VIOL(dict(sgn, kind='panel-y'), 'a parameter panel shows values that belong to no thresholded column',
                                    observed=ys.tolist())
                    shown.append(pick)
                for ax, col in zip(axes[1:], shown):
                    k = col + '_threshold'
                    data, thl = ax.lines[0], ax.lines[1]
                    if not np.allclose(np.asarray(thl.get_ydata(), float), thr[k]):
                        return VIOL(dict(sgn, kind='threshold-line', col=col), 'threshold line of panel %s at %r, the given threshold is %r'
                                    % (col, np.asarray(thl.get_ydata(), float).tolist(), thr[k]))
                    xs = np.asarray(data.get_xdata(), float)
                    ys = np.asarray(data.get_ydata(), float)
                    ss = np.rint(xs * fs).astype(int)
                    inside = df[(df[sc['last']] >= lo) & (df[sc['next']] < hi)]
                    if interp:
                        for x_, s_, y_ in zip(xs, ss, ys):
                            row = df[df[sc['centre']] == s_]
                            if len(row) != 1 or abs(x_ - times[s_]) > 1e-9:
                                return VIOL(dict(sgn, kind='panel-x', col=col), 'panel marker at x=%.6f (sample %d) is not at a cycle centre'
                                            % (x_, s_), observed={'marker_samples': ss.tolist(), 'centres': sorted(kinds['centre'])})
                            v_ = float(row[col].iloc[0])
                            if not ((math.isnan(v_) and math.isnan(y_)) or abs(v_ - y_) < 1e-12):
                                return VIOL(dict(sgn, kind='panel-y', col=col), 'panel value %r at sample %d != column value %r' % (y_, s_, v_))
                        must = set(inside[sc['centre']].tolist())
                        if not must <= set(ss.tolist()):
                            return VIOL(dict(sgn, kind='panel-missing', col=col), 'cycles entirely inside the view missing from the panel: %s'
                                        % sorted(must - set(ss.tolist())))
                    else:
                        pairs = list(zip(ss[0::2].tolist(), ss[1::2].tolist(), ys[0::2].tolist(), ys[1::2].tolist()))
                        for a_, b_, y1, y2 in pairs:
                            row = df[(df[sc['last']] == a_) & (df[sc['next']] == b_)]
                            if len(row) != 1:
                                return VIOL(dict(sgn, kind='panel-x', col=col), 'step from sample %d to %d is not a cycle' % (a_, b_),
                                            observed={'steps': ss.tolist()})
                            v_ = float(row[col].iloc[0])
                            for y_ in (y1, y2):
                                if not ((math.isnan(v_) and math.isnan(y_)) or abs(v_ - y_) < 1e-12):
                                    return VIOL(dict(sgn, kind='panel-y', col=col), 'step value %r != column value %r' % (y_, v_))
                        must = set(zip(inside[sc['last']].tolist(), inside[sc['next']].tolist()))
                        if not must <= {(a_, b_) for a_, b_, _, _ in pairs}:
                            return VIOL(dict(sgn, kind='panel-missing', col=col), 'cycles entirely inside the view missing from the step panel')
    except Exception as e:      # noqa
        import traceback
        tb = traceback.extract_tb(e.__traceback__)
        if any('/bycycle/' in f.filename for f in tb):
            return VIOL(dict(sgn, kind='raise', exc=type(e).__name__), 'plot raised %s: %s' % (type(e).__name__, str(e)[:150]),
                        observed=traceback.format_exc()[-1500:])
        raise
    finally:
        plt.close('all')
    return OK(outcome=(word, centre, method, fs, repr(win), repr(pk), h), nontrivial=nt)


def spaces(tier, seed):
    q = tier == 'quick'
    words = WORDS_Q if q else WORDS_Q + [''.join(w) * 2 + 'aa' for w in itertools.product('abdn', repeat=4)][::32]
    N = 80
    cp_kinds = [['cp_df', True, True, True]]
    cp_all = [['cp_df', a, b, c] for a in (True, False) for b in (True, False) for c in (True, False) if b or c]
    arr_kinds = [['cp_arr', list(sub)] for r in range(1, 5) for sub in itertools.combinations(['centre', 'side', 'rise', 'decay'], r)]
    out = []
    for fs in (64, 100):
        cfg = [c for c in TABCFG if c[2] == fs]
        w_fine = windows(N, 4 if q else 2, fs)
        w_coarse = windows(N, 16 if q else 8, fs)
        w_mid = windows(N, 8 if q else 4, fs)
        out.append(ProductSpace('cyclepoints_df-fs%d' % fs, [words, cfg, w_fine, cp_kinds], evaluate,
                                describe='plot_cyclepoints_df, default switches, every window on the step-%d grid' % (4 if q else 2),
                                bounds={'windows': len(w_fine)}))
        out.append(ProductSpace('cyclepoints-switches-fs%d' % fs, [words[:2], cfg[:2], w_coarse, cp_all[1:] + arr_kinds], evaluate,
                                describe='all plot_sig/plot_extrema/plot_zerox combinations and plot_cyclepoints_array with every subset of kinds',
                                bounds={'windows': len(w_coarse), 'kinds': len(cp_all) - 1 + len(arr_kinds)}))
        summ = [['summary', True, True, 'function'], ['summary', False, True, 'function'], ['summary', False, False, 'function']]
        out.append(ProductSpace('summary-fs%d' % fs, [words, cfg, w_mid if not q else w_mid[::2] + [w for s0 in (29, 57, 58) for w in [x for x in w_mid if x and x[0] == s0][:4]], summ], evaluate,
                                describe='plot_burst_detect_summary x plot_only_result x interp', bounds={'windows': len(w_mid)}))
        out.append(ProductSpace('object-plot-fs%d' % fs, [words[:2], cfg, w_coarse, [['summary', True, True, 'object'], ['summary', False, True, 'object']]],
                                evaluate, describe='Bycycle.plot (after load)', bounds={'windows': len(w_coarse)}))
    # a 140 s recording at fs = 1000: windows beyond t * fs = 1e5 and a full view of 140000 samples
    lw = [None, [10000, 13000], [110000, 113000], [119000, 121500], [100000, 100064]]
    lcfg = [('peak', 'cycles', 1000), ('trough', 'amp', 1000)]
    out.append(ProductSpace('long-recording', [['@F'], lcfg, lw, [['cp_df', True, True, True], ['summary', True, True, 'function'],
                                                                  ['summary', False, True, 'function'], ['summary', True, True, 'object']]], evaluate,
                            describe='140000-sample recording at fs = 1000: full view and windows at 10 s / 110 s / 119 s x cyclepoint plot, summary, Bycycle.plot'))
    return out
