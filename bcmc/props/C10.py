"""C10 - covariance with amplitude units (x * 2^k) and sampling-rate units ((fs, f_range) * 2^k).

Differential and exact: powers of two commute with every floating-point operation in the pipeline.
Space: words x option sets x scale factors x rate factors."""
import numpy as np

from bcmc.explore import ProductSpace, OK, VIOL, SKIP
from bcmc import spaces as S
from bcmc.pipe import precondition, run_cf
from bcmc.ref.table import diff_tables, table_hash

LEVEL = 'model_checking'
RULE = ('product tree letters -> option set; each leaf = base call + 4 scaled + 3 re-rated calls; non-trivial = base '
        'table with a burst label and >= 2 distinct volt_amp; distinct = distinct base table hashes')
ASSUMPTIONS = ['scale and rate factors are powers of two (exact commutation; stated in the property)',
               'rate covariance only for filter lengths given in cycles']

SCALES = [2.0 ** -50, 2.0 ** -10, 2.0, 2.0 ** 40]
SCALES_T = [2.0 ** -50, 2.0 ** -30, 2.0 ** -10, 2.0 ** -3, 2.0, 2.0 ** 10, 2.0 ** 40]
FULL = [False]
RATES = [.5, 2.0, 4.0, 16.0, 128.0]       # up to fs = 8192 Hz with a low band edge of 768 Hz: absolute-time constants (1 ms, 50 ms, 60 Hz) bite somewhere
VOLT = ('volt_peak', 'volt_trough', 'volt_rise', 'volt_decay', 'volt_amp', 'band_amp')


def evaluate(case):
    letters, devs = case[:-1], tuple(case[-1])
    w = ''.join(letters)
    o = S.resolve(devs)
    sig = S.make_signal(w, o)
    ok, why, ref = precondition(sig, o)
    if not ok:
        return SKIP(why)
    sgn = {'method': o['burst_method'], 'centre': o['center_extrema'], 'devs': list(devs)}
    from bycycle.features import compute_features
    kw = S.call_kwargs(o)
    kw['return_samples'] = True          # ONE set of option objects, reused for every call of this case (as a user would)
    if o['burst_method'] == 'amp' and sum(map(ord, w)) % 2 == 0:
        # 'fs' / 'f_range' are documented keys of the burst options (for compute_burst_features); left in a re-used dictionary they
        # are stale at every other rate - compute_features' own arguments decide
        kw['burst_kwargs'] = dict(kw['burst_kwargs'], **({'fs': o['fs']} if sum(map(ord, w)) % 4 == 0 else {'f_range': tuple(o['f_range'])}))
    if o['fs'] == 64:
        try:      # an unrelated earlier analysis in the same process: the SAME band at another sampling rate
            compute_features(np.array(sig), 32, o['f_range'], **kw)
        except Exception:      # noqa
            pass
    base = compute_features(np.array(sig), o['fs'], o['f_range'], **kw)
    nev = 1
    for a in (SCALES_T if FULL[0] else SCALES):
        d = compute_features(np.array(sig) * a, o['fs'], o['f_range'], **kw)
        nev += 1
        exp = base.copy()
        for c in VOLT:
            exp[c] = exp[c] * a
        dd = diff_tables(d, exp, exact=True)
        if dd:
            return VIOL(dict(sgn, kind='scale', factor=a), 'scaling the signal by %g is not covariant: %s' % (a, dd), evals=nev)
    fk = o['filter_kwargs'] or {}
    if 'n_seconds' not in fk:
        for c in RATES:
            d = compute_features(np.array(sig), o['fs'] * c, (o['f_range'][0] * c, o['f_range'][1] * c), **kw)
            nev += 1
            dd = diff_tables(d, base, exact=True)
            if dd:
                return VIOL(dict(sgn, kind='rate', factor=c), 'multiplying fs and f_range by %g changes the table: %s' % (c, dd),
                            evals=nev)
        if o['fs'] == 64 and o['f_range'] == (6, 14):
            # non-integer sampling rates: the same samples declared as 125 Hz, then 62.5 and 31.25 Hz (exact binary fractions)
            k = 125 / 64
            b2 = compute_features(np.array(sig), 125, (6 * k, 14 * k), **kw)
            for c in (.5, .25):
                d = compute_features(np.array(sig), 125 * c, (6 * k * c, 14 * k * c), **kw)
                nev += 1
                dd = diff_tables(d, b2, exact=True)
                if dd:
                    return VIOL(dict(sgn, kind='rate', factor=c, fs=125 * c), 'fs = %g Hz (non-integer) with the band scaled alike changes '
                                'the table: %s' % (125 * c, dd), evals=nev)
        if o['fs'] == 64 and o['f_range'] == (6, 14):
            # a band that is NARROW in absolute terms: the same samples declared as 16 Hz with band 1.75-2.25 Hz (0.5 Hz wide),
            # then as 32 Hz / 3.5-4.5 Hz and 64 Hz / 7-9 Hz
            on = dict(o, fs=16, f_range=(1.75, 2.25))
            if precondition(sig, on)[0]:
                bn = compute_features(np.array(sig), 16, (1.75, 2.25), **kw)
                for c in (2, 4):
                    d = compute_features(np.array(sig), 16 * c, (1.75 * c, 2.25 * c), **kw)
                    nev += 1
                    dd = diff_tables(d, bn, exact=True)
                    if dd:
                        return VIOL(dict(sgn, kind='rate', factor=c, narrow_band=True), 'narrow band (0.5 Hz wide at fs = 16 Hz): multiplying fs '
                                    'and f_range by %g changes the table: %s' % (c, dd), evals=nev)
        again = compute_features(np.array(sig), o['fs'], o['f_range'], **kw)
        nev += 1
        dd = diff_tables(again, base, exact=True)
        if dd:
            return VIOL(dict(sgn, kind='rate', factor=1), 'repeating the original call after the re-rated calls changes the table: ' + dd,
                        evals=nev)
    if not devs or devs == ('trough',):
        # integer dtype (ADC counts) scaled by integer powers of two
        isig = np.asarray(sig).astype(np.int64)
        ib = compute_features(isig, o['fs'], o['f_range'], **kw)
        for a in (2, 8):
            d = compute_features(isig * a, o['fs'], o['f_range'], **kw)
            nev += 2
            exp = ib.copy()
            for c in VOLT:
                exp[c] = exp[c] * a
            dd = diff_tables(d, exp, exact=True)
            if dd:
                return VIOL(dict(sgn, kind='scale', factor=a, dtype='int64'), 'scaling an integer signal by %d is not covariant: %s' % (a, dd),
                            evals=nev)
        # one Bycycle object, the caller's array scaled in place between two fits
        from bycycle import Bycycle
        buf = np.array(sig, dtype=float)
        bm = Bycycle(center_extrema=kw['center_extrema'], thresholds=dict(kw['threshold_kwargs']))
        bm.fit(buf, o['fs'], o['f_range'])
        first = bm.df_features.copy()
        buf *= 4.0
        bm.fit(buf, o['fs'], o['f_range'])
        nev += 2
        exp = first.copy()
        for c in VOLT:
            exp[c] = exp[c] * 4.0
        dd = diff_tables(bm.df_features, exp, exact=True)
        if dd:
            return VIOL(dict(sgn, kind='scale', factor=4.0, via='refit after in-place scaling'),
                        'refitting the same object after the array was scaled in place is not covariant: ' + dd, evals=nev)
    nt = bool(base['is_burst'].any()) and base['volt_amp'].nunique() >= 2
    return OK(outcome=table_hash(base), nontrivial=nt, evals=nev)


EXTREME = [2.0 ** -140, 2.0 ** -300, 2.0 ** 130, 2.0 ** 300]    # outside the float32 range (and far outside float16's)


def eval_extreme_scale(case):
    """Recordings of every size class scaled by factors beyond the single-precision range: a reduced-precision or rescaled intermediate
    (taken for speed or memory on big inputs) cannot follow them."""
    w, devs = case[0], tuple(case[1])
    o = S.resolve(devs)
    sig = S.make_signal(w, o)
    from bycycle.features import compute_features
    kw = S.call_kwargs(o)
    kw['return_samples'] = True
    base = compute_features(np.array(sig), o['fs'], o['f_range'], **kw)
    nev = 1
    for a in EXTREME:
        d = compute_features(np.array(sig) * a, o['fs'], o['f_range'], **kw)
        nev += 1
        exp = base.copy()
        for c in VOLT:
            exp[c] = exp[c] * a
        dd = diff_tables(d, exp, exact=True)
        if dd:
            return VIOL({'kind': 'scale', 'factor': a, 'method': o['burst_method'], 'centre': o['center_extrema'], 'samples': len(sig)},
                        'scaling a %d-sample recording by 2**%d is not covariant: %s' % (len(sig), int(np.log2(a)), dd), evals=nev)
    return OK(outcome=('extreme', w, table_hash(base)), nontrivial=bool(base['is_burst'].any()), evals=nev)


def eval_after_other_rate(case):
    """Rate covariance AFTER an unrelated analysis of the same band at an 8 x lower sampling rate in the same process, for every
    start offset of one period (every phase of the rhythm at the recording edges)."""
    from bycycle.features import compute_features
    k, centre = case
    sig = S.long_signal('@E')[k:k + 3000]
    kw = {'center_extrema': centre, 'threshold_kwargs': dict(S.T0)}
    try:
        compute_features(sig.copy(), 62.5, (8, 12), **kw)
    except Exception:      # noqa
        pass
    base = compute_features(sig.copy(), 500, (8, 12), **kw)
    nev = 1
    for c in (2, .5):
        d = compute_features(sig.copy(), 500 * c, (8 * c, 12 * c), **kw)
        nev += 1
        dd = diff_tables(d, base, exact=True)
        if dd:
            return VIOL({'kind': 'rate', 'factor': c, 'centre': centre, 'after': 'same band at fs/8'},
                        'after an analysis of the same band at fs = 62.5 Hz, multiplying fs and f_range by %g changes the table: %s' % (c, dd), evals=nev)
    return OK(outcome=(k, centre, table_hash(base)), nontrivial=True, evals=nev)


def eval_tiny(case):
    """Cyclepoint level, filter-sensitive inputs: every signal in {-1,0,1}^N under a 9-tap band-pass (fs=8, band 1-3 Hz,
    1 cycle); the SAME option object is reused for the re-rated and re-scaled calls."""
    from bycycle.features import compute_cyclepoints
    from bcmc.ref.extrema import ref_extrema
    sig = np.array(case, dtype=float)
    kw = {'filter_kwargs': {'n_cycles': 1}}
    r = ref_extrema(sig, 8, (1, 3), first_extrema='peak', filter_kwargs={'n_cycles': 1})
    if not r['ok']:
        return SKIP('degenerate narrow-band signal')
    base = compute_cyclepoints(sig.copy(), 8, (1, 3), **kw)
    nev = 1
    for c in RATES + [1 / 8, 1 / 16]:       # down to a low band edge far below 1 Hz (fs = 1: band 0.125-0.375 Hz)
        d = compute_cyclepoints(sig.copy(), 8 * c, (1 * c, 3 * c), **kw)
        nev += 1
        dd = diff_tables(d, base, exact=True)
        if dd:
            return VIOL({'kind': 'rate', 'factor': c, 'level': 'cyclepoints'},
                        'multiplying fs and f_range by %g changes the cyclepoints: %s' % (c, dd), evals=nev)
    for a in (2.0 ** -50, 2.0 ** 40):
        d = compute_cyclepoints(sig * a, 8, (1, 3), **kw)
        nev += 1
        dd = diff_tables(d, base, exact=True)
        if dd:
            return VIOL({'kind': 'scale', 'factor': a, 'level': 'cyclepoints'},
                        'scaling the signal by %g changes the cyclepoints: %s' % (a, dd), evals=nev)
    return OK(outcome=table_hash(base), nontrivial=len(base) >= 1, evals=nev)


OPTS_Q = [(), ('trough',), ('amp',), ('amp', 'trough'), ('nc2',), ('b5', 'trough'), ('ns.5',), ('dc5',), ('band7_16',), ('band5_12', 'amp')]


def spaces(tier, seed):
    FULL[0] = tier != 'quick'
    al = S.alphabet(5)
    out = [ProductSpace('tiny{-1,0,1}^9-cyclepoints', [[-1, 0, 1]] * 9, eval_tiny,
                        describe='compute_cyclepoints on every signal in {-1,0,1}^9 (9-tap filter): rate and scale covariance'),
           ProductSpace('W(5,5)xdefault', S.word_dims(al, 5) + [[OPTS_Q[0]]], evaluate,
                        bounds={'letters': al, 'scales': SCALES, 'rates': RATES}),
           ProductSpace('W(4,5)xopts', S.word_dims(S.alphabet(4), 5) + [OPTS_Q[1:5] if tier == 'quick' else OPTS_Q[1:]], evaluate,
                        bounds={'letters': S.alphabet(4), 'scales': SCALES, 'rates': RATES})]
    if tier == 'quick':
        out.append(ProductSpace('W(3,5)xopts', S.word_dims(S.alphabet(3), 5) + [[OPTS_Q[5], OPTS_Q[8], OPTS_Q[9]]], evaluate,
                                bounds={'letters': S.alphabet(3), 'scales': SCALES, 'rates': RATES},
                                describe='boundary / band deviations on the 3-letter alphabet'))
    out.append(ProductSpace('after-other-rate-x-offsets', [list(range(50)), ['peak', 'trough']], eval_after_other_rate,
                            describe='3000-sample excerpts at each of 50 start offsets: rate covariance after an analysis of the same band at an 8 x lower rate'))
    from bcmc.explore import ListSpace
    xc = S.long_cases(['@G', '@E'], [(), ('amp',)]) + [['abdab', ()], ['abdab', ('amp', 'trough')]]
    out.append(ListSpace('extreme-scales', xc, eval_extreme_scale,
                         describe='a 300000-sample and a 6000-sample recording and one word x both methods x scale factors 2**-300, 2**-140, 2**130, 2**300'))
    out.append(ListSpace('long-recordings', S.long_cases(['@B', '@E'], [(), ('amp',)]) + S.long_cases(['@C'], [('trough',)]), evaluate,
                         describe='long real-valued recordings (fs 1000 band 13-30, fs 500 band 8-12, fs 1017.25) x scale and rate factors'))
    if tier != 'quick':
        al = S.alphabet(4, seed, extra=2)
        devs = [d for d in S.option_sets(2, ['trough', 'amp', 'nc2', 'ns.5', 'b1', 'b5', 'band5_12', 'band7_16', 'thr1', 'dc5', 'neg'])]
        out += [ProductSpace('tiny{-1,0,1}^12-cyclepoints', [[-1, 0, 1]] * 12, eval_tiny),
                ProductSpace('W(6,5)xcore', S.word_dims(al, 5) + [OPTS_Q[:4]], evaluate, bounds={'letters': al}),
                ProductSpace('W(3,5)x2dev', S.word_dims(S.alphabet(3), 5) + [devs], evaluate,
                             bounds={'option_sets': len(devs), 'max_deviations': 2})]
    return out
