"""Self-test space for the explorer's watchdog (not a property): one sub-tree hangs, one crashes."""
import os, time
from bcmc.explore import ListSpace, OK, VIOL
LEVEL = 'model_checking'
RULE = 'self-test'
def ev(case):
    if case == 'hang':
        time.sleep(10000)
    if case == 'crash':
        os._exit(3)
    if case == 'flaky-hang' and not os.path.exists('/tmp/x99_flag'):
        open('/tmp/x99_flag', 'w').close()
        time.sleep(10000)
    return OK(outcome=case, nontrivial=True)
def spaces(tier, seed):
    mode = os.environ.get('X99', 'flaky-hang')
    return [ListSpace('selftest', ['a', 'b', mode, 'c', 'd'], ev)]
