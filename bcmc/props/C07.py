"""C07 - amplitude burst labels follow the dual-threshold rule with ONE effective minimum-cycle count.

Space: words x centring x amp_threshes x the 16 routes of min_n_cycles (thresholds' value in
{absent,1,2,4} x burst options' value in {absent,1,2,4}) x min_burst_duration x
burst_fraction_threshold over the region grid of the table's own burst_fraction column.
Oracle: neurodsp's dual-threshold detector (trusted) called with the effective minimum; burst_fraction
= mean of the mask over [last, next] inclusive; labels = run filter with the same minimum."""
import itertools
import math

import numpy as np

from bcmc.explore import ProductSpace, OK, VIOL, SKIP
from bcmc import spaces as S
from bcmc.pipe import precondition, sample_cols
from bcmc.ref.runs import min_run_filter
from bcmc.ref.table import same_values
from bcmc.props.C06 import region_grid

LEVEL = 'model_checking'
RULE = ('product tree letters -> (centring, amp_threshes); each leaf runs all 16 min_n_cycles routes x 2 durations through '
        'compute_features and the full burst_fraction_threshold region grid through detect_bursts_amp; non-trivial = '
        'table with a fractional burst_fraction (cycle straddling a burst edge); distinct = distinct (word, labels) outcomes')
ASSUMPTIONS = ['neurodsp.burst.detect_bursts_dual_threshold is the trusted sample-wise detector',
               'effective minimum = burst options value, else thresholds value, else 3 (as the property states)']

ROUTE_VALS = (None, 1, 2, 4)
ROUTE_VALS_T = (None, 0, 1, 2, 4)
AMP_THRESHES = [(1, 2), (.5, 1.), (.25, .5)]


def evaluate(case, FULL=False):
    from neurodsp.burst import detect_bursts_dual_threshold
    from bycycle.features import compute_features
    from bycycle.burst import detect_bursts_amp
    letters, (centre, at) = case[:-1], case[-1]
    at = tuple(at)
    w = ''.join(letters)
    sig = S.word_signal(w)
    o = S.resolve(('trough',) if centre == 'trough' else ())
    ok, why, ref = precondition(sig, o)
    if not ok:
        return SKIP(why)
    sc = sample_cols(centre)
    nev, nt, outs = 0, False, []
    # one pre-allocated array, analysed with decoy content, overwritten in place, analysed again
    decoy = 2.0 * sig[::-1] + 1.0
    buf = np.empty(len(sig))
    for content in (decoy, sig):
        buf[:] = content
        try:
            dfb = compute_features(buf, 64, (6, 14), center_extrema=centre, burst_method='amp',
                                   threshold_kwargs={'burst_fraction_threshold': .5}, burst_kwargs={'amp_threshes': at})
        except Exception:      # noqa  (the decoy may fail the precondition)
            dfb = None
    nev += 1
    mask = detect_bursts_dual_threshold(sig, 64, at, (6, 14), min_n_cycles=3)
    bf = np.array([mask[int(a):int(b) + 1].mean() for a, b in zip(dfb[sc['last']], dfb[sc['next']])])
    if not same_values(dfb['burst_fraction'].to_numpy(), bf):
        return VIOL({'kind': 'amp', 'centre': centre, 'what': 'burst_fraction', 'via': 'aliased-buffer'},
                    'after the same array object was overwritten in place, burst_fraction is not that of the new content',
                    expected=bf.tolist(), observed=dfb['burst_fraction'].tolist(), evals=nev)
    # tables whose rows are NOT adjacent cycles (rejected cycles removed, every other cycle, one row): burst_fraction is a
    # per-cycle quantity over that cycle's own [last, next] window
    from bycycle.features.burst import compute_burst_fraction
    samp = dfb[[c for c in dfb.columns if c.startswith('sample_')]]
    n = len(samp)
    subsets = {'every-other': list(range(0, n, 2)), 'odd': list(range(1, n, 2)), 'gap': [i for i in range(n) if i not in (1, 2)],
               'single': [n // 2], 'reversed': list(range(n))[::-1]}
    for name, rows in subsets.items():
        if not rows:
            continue
        sub = samp.iloc[rows]
        if (n + len(name)) % 2:
            sub = sub.reset_index(drop=True)
        got = np.asarray(compute_burst_fraction(sub, np.array(sig), 64, (6, 14), amp_threshes=at), float)
        nev += 1
        if not same_values(got, bf[rows]):
            return VIOL({'kind': 'amp', 'centre': centre, 'what': 'burst_fraction', 'via': 'row-subset'},
                        'compute_burst_fraction on a table holding only rows %s (%s) is not the per-cycle inclusive-window mean' % (rows, name),
                        expected=bf[rows].tolist(), observed=got.tolist(), evals=nev)
    # the extrema localisation has its own filter settings: the sample-wise detector keeps ITS default filter (3 cycles)
    for fek in ({'filter_kwargs': {'n_cycles': 2}}, {'filter_kwargs': {'n_seconds': .375}, 'boundary': 1}):
        o2 = S.resolve((('trough',) if centre == 'trough' else ()) + (('nc2',) if 'n_cycles' in fek['filter_kwargs'] else ('ns.375', 'b1')))
        if not precondition(sig, o2)[0]:
            continue
        df2 = compute_features(np.array(sig), 64, (6, 14), center_extrema=centre, burst_method='amp',
                               threshold_kwargs={'burst_fraction_threshold': .5}, burst_kwargs={'amp_threshes': at},
                               find_extrema_kwargs={k: (dict(v) if isinstance(v, dict) else v) for k, v in fek.items()})
        nev += 1
        bf2 = np.array([mask[int(a):int(b) + 1].mean() for a, b in zip(df2[sc['last']], df2[sc['next']])])
        if not same_values(df2['burst_fraction'].to_numpy(), bf2):
            return VIOL({'kind': 'amp', 'centre': centre, 'what': 'burst_fraction', 'via': 'find_extrema_kwargs'},
                        'with find_extrema_kwargs=%r burst_fraction is not the mean of the detector mask for the given band, thresholds '
                        'and minimum (the burst options carry no filter settings)' % (fek,), expected=bf2.tolist(),
                        observed=df2['burst_fraction'].tolist(), evals=nev)
    plan = []
    RV = ROUTE_VALS_T if FULL else ROUTE_VALS
    if not FULL:
        plan += [(0, None, None, (.5,)), (None, 0, None, (1,)), (2, 0, None, (.5,))]      # minimum 0 (documented lower bound)
    for i, (tm, bm) in enumerate(itertools.product(RV, RV)):
        plan.append((tm, bm, None, (.5, 1) if FULL else ((.5, 1)[(i + i // 4) % 2],)))
    for tm, bm in (itertools.product(RV, RV) if FULL else [(None, None), (1, None), (None, 2), (4, 1)]):
        plan.append((tm, bm, .2, (.5, 1) if FULL else (.5,)))
    for tm, bm in ([(None, None), (1, None), (None, 2), (4, 1)] if FULL else [(None, None)]):
        plan.append((tm, bm, 0, (.5,)))          # a minimum duration of exactly 0 (documented) keeps every period
        if FULL:
            plan.append((tm, bm, .05, (.5,)))
    for tm, bm, dur, bfts in plan:
        m = bm if bm is not None else (tm if tm is not None else 3)
        for bft in bfts:
            thr = {'burst_fraction_threshold': bft}
            bk = {'amp_threshes': at}
            if tm is not None:
                thr['min_n_cycles'] = tm
            if bm is not None:
                bk['min_n_cycles'] = bm
            if dur is not None:
                bk['min_burst_duration'] = dur
            sgn = {'kind': 'amp', 'centre': centre, 'route': [tm, bm], 'duration': dur is not None}
            df = compute_features(np.array(sig), 64, (6, 14), center_extrema=centre, burst_method='amp',
                                  threshold_kwargs=dict(thr), burst_kwargs=dict(bk))
            nev += 1
            mask = detect_bursts_dual_threshold(sig, 64, at, (6, 14), min_n_cycles=None if dur is not None else m,
                                                min_burst_duration=dur)
            bf = np.array([mask[int(a):int(b) + 1].mean() for a, b in zip(df[sc['last']], df[sc['next']])])
            if not same_values(df['burst_fraction'].to_numpy(), bf):
                return VIOL(dict(sgn, what='burst_fraction'), 'burst_fraction is not the inclusive-window mean of the detector '
                            'mask for the effective minimum %s' % m, expected=bf.tolist(),
                            observed=df['burst_fraction'].tolist(), evals=nev)
            exp = min_run_filter([v >= bft for v in bf], m)
            got = [bool(x) for x in df['is_burst']]
            if got != exp:
                return VIOL(dict(sgn, what='labels'), 'labels are not the run filter (minimum %s) of burst_fraction >= %s' % (m, bft),
                            expected=exp, observed=got, evals=nev)
            nt = nt or bool(((bf > 0) & (bf < 1)).any())
            outs.append(tuple(got))
        # full region grid of burst_fraction_threshold on the last table, post hoc
        if dur is None:
            feats = df.drop(columns=['is_burst'])
            ik = (len(w) + sum(map(ord, w)) + int(m)) % 3
            if ik == 1:
                feats.index = range(3, 3 + len(feats))
            elif ik == 2:
                feats.index = list(range(len(feats)))[::-1]
            prev = None
            for thr_v in region_grid(bf):
                out = detect_bursts_amp(feats.copy(), burst_fraction_threshold=thr_v, min_n_cycles=m)
                if out['is_burst'].isna().any():
                    return VIOL({'kind': 'amp', 'what': 'labels-grid', 'centre': centre, 'index': ik}, 'is_burst contains NaN', evals=nev)
                got = [bool(x) for x in out['is_burst']]
                exp = min_run_filter([v >= thr_v for v in bf], m)
                nev += 1
                if got != exp:
                    return VIOL({'kind': 'amp', 'what': 'labels-grid', 'centre': centre},
                                'detect_bursts_amp labels differ from reference at threshold %r, minimum %s' % (thr_v, m),
                                expected=exp, observed={'labels': got, 'burst_fraction': bf.tolist()}, evals=nev)
                if prev is not None and any(g and not p for g, p in zip(got, prev)):
                    return VIOL({'kind': 'amp', 'what': 'monotone', 'centre': centre},
                                'raising burst_fraction_threshold added a label', expected=prev, observed=got, evals=nev)
                prev = got
    return OK(outcome=(w, centre, at, hash(tuple(outs))), nontrivial=nt, evals=nev)


def eval_short_table(case):
    """A large boundary leaves a table with fewer rows than min_n_cycles although the sample-wise detector (which counts
    cycles of the low band edge over the whole signal) still finds a burst: burst_fraction must be computed all the same."""
    from neurodsp.burst import detect_bursts_dual_threshold
    from bycycle.features import compute_features
    letters, (centre, m) = case[:-1], case[-1]
    w = ''.join(letters)
    sig = S.word_signal(w)
    o = S.resolve((('trough',) if centre == 'trough' else ()) + ('b12',))
    ok, why, ref = precondition(sig, o, min_peaks=2)
    if not ok:
        return SKIP(why)
    sc = sample_cols(centre)
    df = compute_features(np.array(sig), 64, (6, 14), center_extrema=centre, burst_method='amp',
                          threshold_kwargs={'burst_fraction_threshold': .5, 'min_n_cycles': m},
                          burst_kwargs={'amp_threshes': (.5, 1.)}, find_extrema_kwargs={'boundary': 12})
    mask = detect_bursts_dual_threshold(sig, 64, (.5, 1.), (6, 14), min_n_cycles=m)
    bf = np.array([mask[int(a):int(b) + 1].mean() for a, b in zip(df[sc['last']], df[sc['next']])])
    if not same_values(df['burst_fraction'].to_numpy(), bf):
        return VIOL({'kind': 'amp', 'centre': centre, 'what': 'burst_fraction', 'via': 'short-table', 'rows': len(df), 'm': m},
                    'burst_fraction of a %d-row table with min_n_cycles=%d is not the inclusive-window mean of the detector mask' % (len(df), m),
                    expected=bf.tolist(), observed=df['burst_fraction'].tolist())
    return OK(outcome=(w, centre, m, tuple(np.round(bf, 6))), nontrivial=len(df) < m and bool(bf.any()))


def eval_many_runs(case):
    """Synthetic burst_fraction columns with MANY runs of supra-threshold cycles (see C08 many-runs) through detect_bursts_amp."""
    import pandas as pd
    from bycycle.burst import detect_bursts_amp
    from bcmc.props.C08 import RUN_PATTERNS
    R, pi, lo = case
    lens, gaps = RUN_PATTERNS[pi]
    q = [False]
    for r in range(R):
        q += [True] * lens[r % len(lens)] + [False] * gaps[r % len(gaps)]
    q += [True] * 6
    bf = [(1. if i % 3 else .75) if ok else lo for i, ok in enumerate(q)]
    nev = 0
    for thr in (.75, .5):
        for m in (2, 3, 4, 5):
            exp = min_run_filter([v >= thr for v in bf], m)
            got = [bool(x) for x in detect_bursts_amp(pd.DataFrame({'burst_fraction': bf}), burst_fraction_threshold=thr, min_n_cycles=m)['is_burst']]
            nev += 1
            if got != exp:
                bad = [i for i in range(len(q)) if got[i] != exp[i]]
                return VIOL({'kind': 'amp', 'what': 'labels-many-runs', 'pattern': pi, 'm': m}, '%d runs (pattern %s), min_n_cycles=%d, threshold %g: labels '
                            'differ from the run filter of burst_fraction >= threshold from cycle %d on' % (R, lens, m, thr, bad[0]), evals=nev)
    return OK(outcome=(R, pi, lo), nontrivial=True, evals=nev)


def eval_long(case):
    """Long real-valued recordings: burst_fraction = inclusive-window mean of the detector mask, labels = run filter, for three
    routes of the minimum and two thresholds."""
    from neurodsp.burst import detect_bursts_dual_threshold
    from bycycle.features import compute_features
    w, (centre, at) = case
    at = tuple(at)
    o = S.resolve((S.LONG_DECL[w],) + (('trough',) if centre == 'trough' else ()))
    sig = S.make_signal(w, o)
    fs, fr = o['fs'], o['f_range']
    sc = sample_cols(centre)
    nev = 0
    for tm, bm, bft in ((None, None, .5), (2, None, 1), (None, 4, .5), (4, 2, .9)):
        m = bm if bm is not None else (tm if tm is not None else 3)
        thr = {'burst_fraction_threshold': bft}
        bk = {'amp_threshes': at}
        if tm is not None:
            thr['min_n_cycles'] = tm
        if bm is not None:
            bk['min_n_cycles'] = bm
        df = compute_features(np.array(sig), fs, fr, center_extrema=centre, burst_method='amp', threshold_kwargs=dict(thr), burst_kwargs=dict(bk))
        nev += 1
        mask = detect_bursts_dual_threshold(sig, fs, at, fr, min_n_cycles=m)
        bf = np.array([mask[int(a):int(b) + 1].mean() for a, b in zip(df[sc['last']], df[sc['next']])])
        sgn = {'kind': 'amp', 'centre': centre, 'route': [tm, bm], 'long': True}
        if not same_values(df['burst_fraction'].to_numpy(), bf):
            return VIOL(dict(sgn, what='burst_fraction'), 'burst_fraction is not the inclusive-window mean of the detector mask (minimum %s)' % m, evals=nev)
        exp = min_run_filter([v >= bft for v in bf], m)
        got = [bool(x) for x in df['is_burst']]
        if got != exp:
            bad = [i for i in range(len(exp)) if got[i] != exp[i]]
            return VIOL(dict(sgn, what='labels'), 'labels are not the run filter (minimum %s) of burst_fraction >= %s: %d rows differ, first %d'
                        % (m, bft, len(bad), bad[0]), evals=nev)
    return OK(outcome=(w, centre, at, len(df), int(sum(got))), nontrivial=bool(((bf > 0) & (bf < 1)).any()), evals=nev)


AMP_EP = [{'burst_fraction_threshold': .4, 'min_n_cycles': 2}, None, {'burst_fraction_threshold': 1, 'min_n_cycles': 1}, None,
          {'burst_fraction_threshold': .75, 'min_n_cycles': 4}]


def eval_epoch_list(case):
    """compute_features_2d(axis=None, burst_method='amp') with one option dict per epoch, some WITHOUT thresholds: every epoch table is
    labelled by the run rule with its own thresholds (the documented defaults 1 / 3 where none are given)."""
    from bycycle.group import compute_features_2d
    letters, (centre, E, rot) = case[:-1], case[-1]
    sig = S.word_signal(''.join(letters))
    if not precondition(sig, S.resolve(('trough',) if centre == 'trough' else ()))[0]:
        return SKIP('precondition')
    n_ep = len(sig) // E
    kws, thr = [], []
    for e in range(n_ep):
        t = AMP_EP[(e + rot) % len(AMP_EP)]
        k = {'center_extrema': centre, 'burst_method': 'amp', 'burst_kwargs': {'amp_threshes': (.5, 1.)}}
        if t is not None:
            k['threshold_kwargs'] = dict(t)
        kws.append(k)
        thr.append(t or {'burst_fraction_threshold': 1, 'min_n_cycles': 3})
    dfs = compute_features_2d(sig.reshape(n_ep, E).copy(), 64, (6, 14), kws, axis=None)
    nt = False
    for e, df in enumerate(dfs):
        bf = df['burst_fraction'].tolist()
        exp = min_run_filter([v >= thr[e]['burst_fraction_threshold'] for v in bf], thr[e]['min_n_cycles'])
        got = [bool(x) for x in df['is_burst']]
        if got != exp:
            return VIOL({'kind': 'amp', 'what': 'epoch-labels', 'centre': centre, 'own_thresholds': AMP_EP[(e + rot) % len(AMP_EP)] is not None},
                        'epoch %d: labels are not the run rule with that epoch\'s thresholds %r' % (e, thr[e]), expected=exp,
                        observed={'got': got, 'burst_fraction': bf}, evals=e + 1)
        nt = nt or any(got)
    return OK(outcome=(''.join(letters), centre, E, rot), nontrivial=nt, evals=len(dfs))


def evaluate_full(case):
    return evaluate(case, FULL=True)


def spaces(tier, seed):
    leaf = [(c, a) for c in ('peak', 'trough') for a in AMP_THRESHES]
    if True:
        al = S.alphabet(4)
        leaf = [(c, a) for c in ('peak', 'trough') for a in AMP_THRESHES[:2]]
        st = [(c, m) for c in ('peak', 'trough') for m in (3, 4, 5)]
        out = [ProductSpace('W(2,8)-short-tables', S.word_dims(['a', 'd'], 8) + [st], eval_short_table,
                             describe='8-letter words with boundary 12: tables with fewer rows than min_n_cycles'),
                ProductSpace('W(4,5)xroutes', S.word_dims(al, 5) + [leaf], evaluate,
                             bounds={'letters': al, 'routes': 16, 'durations': 2, 'amp_threshes': AMP_THRESHES})]
    Rs = [3, 40] + list(range(124, 132)) + list(range(252, 260)) + [511, 512, 513, 1023, 1024, 1025] + ([] if tier == 'quick' else list(range(96, 124)) + [2047, 2048, 4096])
    out.append(ProductSpace('many-runs', [Rs, [0, 1, 2, 4], [0., .4995]], eval_many_runs,
                            describe='synthetic burst_fraction columns with up to %d runs x 4 run-length patterns, through detect_bursts_amp' % Rs[-1]))
    ep = [(c, E, r) for c in ('peak', 'trough') for E in (32, 16) for r in (0, 1, 3)]
    out.append(ProductSpace('epoch-list-W(3,8)' if tier != 'quick' else 'epoch-list-W(2,8)', [['a', 'd', 'z'] if tier != 'quick' else ['a', 'z']] * 8 + [ep], eval_epoch_list,
                            describe='per-epoch option lists (amp method, some entries without thresholds): labels of every epoch table'))
    from bcmc.explore import ListSpace
    out.append(ListSpace('long-recordings', [[w, (c, (.5, 1.))] for w in ('@A', '@B', '@D') for c in ('peak', 'trough')], eval_long,
                         describe='long real-valued recordings (660 / 1430 / 200 cycles, 200 samples per cycle) x centring: routes and region grid'))
    if tier != 'quick':
        leaf = [(c, a) for c in ('peak', 'trough') for a in AMP_THRESHES]
        out.append(ProductSpace('W(3,5)xroutes-full', S.word_dims(S.alphabet(3), 5) + [leaf], evaluate_full,
                                describe='full product of routes (incl. 0) x durations x thresholds', bounds={'letters': S.alphabet(3)}))
        al = S.alphabet(5, seed, extra=1)
        out.append(ProductSpace('W(6,5)xroutes', S.word_dims(al, 5) + [leaf[1:2] + leaf[3:4]], evaluate, bounds={'letters': al}))
        st = [(c, m) for c in ('peak', 'trough') for m in (3, 4, 5, 6)]
        out.append(ProductSpace('W(3,8)-short-tables', S.word_dims(['a', 'b', 'd'], 8) + [st], eval_short_table))
    return out

