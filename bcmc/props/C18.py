"""C18 - windowing utilities are lossless selections.

Spaces: limit_df on every synthetic tiling cyclepoint table (tree over side-extremum positions) x both
centrings x fs x every (start, stop) on the sample and half-sample grid incl. None x reset_indices;
limit_signal on every time axis of <= 8 samples x the same grid; split_samples_df / drop_samples_df on
pipeline tables; flatten_dfs on every 1-D list of 1..3 tables and every 2-D list up to 2 x 3."""
import itertools

import numpy as np
import pandas as pd

from bcmc.explore import Space, ProductSpace, ListSpace, OK, VIOL, SKIP
from bcmc import spaces as S
from bcmc.pipe import sample_cols, run_cf
from bcmc.ref.table import diff_tables

LEVEL = 'model_checking'
RULE = ('tree over increasing side-extremum positions (gaps >= 2); every node with >= 2 cycles is a table, evaluated over '
        'the complete limit grid; non-trivial = window that keeps some but not all cycles; distinct = distinct '
        '(table, kept-row sets) outcomes')
ASSUMPTIONS = ['whether partially overlapping cycles are kept is left open (docstring and code disagree)',
               'fs in {1, 4} make grid times exact; for fs = 10 a cycle whose boundary equals a limit up to rounding '
               '(1e-9) may be kept or dropped']


def mk_table(sides, centre):
    side = 'trough' if centre == 'peak' else 'peak'
    lastzx = 'sample_last_zerox_decay' if centre == 'peak' else 'sample_last_zerox_rise'
    rows = []
    prev = max(sides[0] - 1, 0)
    for i, (a, b) in enumerate(zip(sides[:-1], sides[1:])):
        c = (a + b) // 2
        first_mid, second_mid = (a + c) // 2, (c + b + 1) // 2
        r = {'period': b - a, 'volt_amp': float(i + 1), 'sample_' + centre: c, 'sample_last_' + side: a,
             'sample_next_' + side: b}
        if centre == 'peak':
            r['sample_zerox_rise'], r['sample_zerox_decay'] = first_mid, second_mid
        else:
            r['sample_zerox_decay'], r['sample_zerox_rise'] = first_mid, second_mid
        r[lastzx] = prev
        prev = second_mid
        r['is_burst'] = bool(i % 2)
        rows.append(r)
    return pd.DataFrame(rows)


class LimitTables(Space):
    def __init__(self, T, fss):
        self.T, self.fss = T, fss
        self.name = 'limit_df-T%d' % T
        self.split_depth = 2
        self.describe = 'every tiling table with 2..4 cycles on [1,%d) x 2 centrings x fs %s x full (start, stop) grid x reset' % (T, fss)

    def children(self, node):
        if len(node) >= 5:
            return []
        start = node[-1] + 2 if node else 1
        return [node + (p,) for p in range(start, self.T)]

    def is_case(self, node):
        return len(node) >= 3

    def bounds(self):
        return {'T': self.T, 'fs': self.fss, 'grid': 'None + s/fs and (s+.5)/fs for s in 0..T'}

    def evaluate(self, case):
        from bycycle.utils import limit_df
        sides = list(case)
        T = self.T
        nev, nt, outs = 0, False, []
        for centre in ('peak', 'trough'):
            df = mk_table(sides, centre)
            # row index as left by earlier steps: default, offset labels (a slice), duplicate labels (a concatenation)
            if sum(sides) % 4 == 3:
                df['Label'] = 'chan-1'
                df = df[list(df.columns[::-1])]
            ik = (sum(sides) + (centre == 'trough')) % 3
            if ik == 1:
                df.index = range(7, 7 + len(df))
            elif ik == 2:
                df.index = [i % 2 for i in range(len(df))]
            sc = sample_cols(centre)
            last, nxt = df[sc['last']].to_numpy(), df[sc['next']].to_numpy()
            for fs in self.fss:
                grid = [None] + [x / 2 / fs for x in range(0, 2 * T + 1)]
                for start, stop in itertools.product(grid, grid):
                    if start is not None and stop is not None and start > stop:
                        continue
                    for reset in ((True, False) if fs == 1 else (True,)):
                        sgn = {'site': 'limit_df', 'centre': centre, 'reset_indices': reset,
                               'none': start is None or stop is None, 'index': ('default', 'offset', 'duplicate')[ik]}
                        nev += 1
                        try:
                            out = limit_df(df.copy(), fs, start=start, stop=stop, reset_indices=reset)
                        except Exception as e:      # noqa
                            return VIOL(dict(sgn, kind='raise', exc=type(e).__name__),
                                        'limit_df raised %s: %s' % (type(e).__name__, str(e)[:120]),
                                        observed={'sides': sides, 'fs': fs, 'start': start, 'stop': stop}, evals=nev)
                        lo = -np.inf if start is None else start * fs
                        hi = np.inf if stop is None else stop * fs
                        eps = 0 if fs in (1, 4) else 1e-9
                        inside = {j for j in range(len(df)) if last[j] >= lo + eps and nxt[j] <= hi - eps}
                        outside = {j for j in range(len(df)) if nxt[j] < lo - eps or last[j] > hi + eps}
                        got = [int(v) - 1 for v in out['volt_amp']]
                        obs = {'sides': sides, 'fs': fs, 'start': start, 'stop': stop, 'kept_rows': got}
                        if not inside <= set(got) or outside & set(got):
                            return VIOL(dict(sgn, kind='rows'), 'cycle entirely inside dropped or entirely outside kept',
                                        expected={'must_keep': sorted(inside), 'must_drop': sorted(outside)}, observed=obs, evals=nev)
                        if got != sorted(got) or len(set(got)) != len(got):
                            return VIOL(dict(sgn, kind='order'), 'rows reordered or duplicated', observed=obs, evals=nev)
                        if set(out.columns) != set(df.columns):
                            return VIOL(dict(sgn, kind='columns'), 'columns changed', observed=sorted(out.columns), evals=nev)
                        offs = set()
                        for pos, j in enumerate(got):
                            for col in df.columns:
                                a, b = df[col].iloc[j], out[col].iloc[pos]
                                if col.startswith('sample_'):
                                    offs.add(int(a) - int(b))
                                elif a != b:
                                    return VIOL(dict(sgn, kind='value'), 'feature value %s changed' % col, observed=obs, evals=nev)
                        if len(offs) > 1:
                            return VIOL(dict(sgn, kind='offsets'), 'sample columns shifted by different offsets %s' % sorted(offs),
                                        observed=obs, evals=nev)
                        if not reset and offs - {0}:
                            return VIOL(dict(sgn, kind='shift-without-reset'), 'indices shifted although reset_indices=False',
                                        observed=obs, evals=nev)
                        if reset and got and fs in (1, 4) and start is not None and float(start * fs).is_integer() \
                                and offs != {int(start * fs)}:
                            return VIOL(dict(sgn, kind='offset-value'), 'reset offset %s != start sample %d' % (sorted(offs), int(start * fs)),
                                        observed=obs, evals=nev)
                        nt = nt or 0 < len(got) < len(df)
                        outs.append(tuple(got))
        return OK(outcome=(tuple(sides), hash(tuple(outs))), nontrivial=nt, evals=nev)


def eval_limit_signal(case):
    from bycycle.utils import limit_signal
    N, fs, t0 = case
    nan_stamps = isinstance(t0, str)        # 'nan': lost time stamps (NaN) inside the axis; NaN never satisfies start <= t < stop
    t0 = 0 if nan_stamps else t0
    times = t0 + np.arange(N) / fs
    if nan_stamps and N >= 3:
        times[1::3] = np.nan
    sig = np.arange(N) + 100.
    grid = [None] + sorted({t0 + x / 2 / fs for x in range(-1, 2 * N + 2) if t0 + x / 2 / fs >= 0} | {0.0, .5})
    nev, nt = 0, False
    outs = []
    for start, stop in itertools.product(grid, grid):
        if start is not None and stop is not None and start > stop:
            continue
        nev += 1
        sgn = {'site': 'limit_signal', 'none': start is None or stop is None}
        try:
            s2, t2 = limit_signal(times.copy(), sig.copy(), start=start, stop=stop)
        except Exception as e:      # noqa
            return VIOL(dict(sgn, kind='raise', exc=type(e).__name__), 'limit_signal raised %s: %s' % (type(e).__name__, str(e)[:120]),
                        observed={'N': N, 'fs': fs, 'start': start, 'stop': stop}, evals=nev)
        keep = [i for i in range(N) if (start is None or times[i] >= start) and (stop is None or times[i] < stop)]
        if list(s2) != [sig[i] for i in keep] or [repr(float(v)) for v in t2] != [repr(float(times[i])) for i in keep]:
            return VIOL(dict(sgn, kind='samples'), 'limit_signal did not return exactly the samples with start <= t < stop',
                        expected=keep, observed={'N': N, 'fs': fs, 't0': t0, 'start': start, 'stop': stop, 'sig': list(s2)}, evals=nev)
        nt = nt or 0 < len(keep) < N
        outs.append(tuple(keep))
    return OK(outcome=(N, fs, t0, hash(tuple(outs))), nontrivial=nt, evals=nev)


def eval_split_drop(case):
    from bycycle.utils import split_samples_df, drop_samples_df
    letters, devs = case[:-1], tuple(case[-1])
    w = ''.join(letters)
    o = S.resolve(devs)
    sig = S.make_signal(w, o)
    try:
        df = run_cf(sig, o)
    except Exception:      # noqa
        return SKIP('pipeline precondition')
    df['downsample_factor'] = 2            # user-added columns: 'sample_' inside the name is not a sample column
    df['n_resample_pts'] = np.arange(len(df))
    orig = df.copy()
    scols = [c for c in orig.columns if c.startswith('sample_')]
    fcols = [c for c in orig.columns if not c.startswith('sample_')]
    d = drop_samples_df(df)
    if list(d.columns) != fcols or diff_tables(d, orig[fcols], exact=True):
        return VIOL({'site': 'drop_samples_df'}, 'drop_samples_df altered columns or values', observed=list(d.columns))
    if diff_tables(df, orig, exact=True):
        return VIOL({'site': 'drop_samples_df', 'kind': 'input'}, 'drop_samples_df modified its input')
    nev = 1
    if scols:
        f, s = split_samples_df(orig.copy())
        nev += 1
        if list(f.columns) != fcols or list(s.columns) != scols or diff_tables(f, orig[fcols], exact=True) or \
                diff_tables(s, orig[scols], exact=True):
            return VIOL({'site': 'split_samples_df'}, 'split_samples_df altered columns or values',
                        observed={'features': list(f.columns), 'samples': list(s.columns)})
    return OK(outcome=(w, devs), nontrivial=bool(scols), evals=nev)


def _tab(i, n):
    return pd.DataFrame({'period': [10 * i + k for k in range(n)], 'volt_amp': [float(i)] * n})


def eval_flatten(case):
    from bycycle.utils import flatten_dfs
    shape, sizes, lab_kind, colname = case
    sizes = list(sizes)
    nev = 0
    if len(shape) == 1:
        dfs = [_tab(i, sizes[i % len(sizes)]) for i in range(shape[0])]
        labels = ['L%d' % (i % 2 if lab_kind == 'dup' else i) for i in range(shape[0])]      # 'dup': condition labels shared by several tables
        flat_t, flat_l = dfs, labels
        lab = labels
    else:
        dfs = [[_tab(i * shape[1] + j, sizes[(i * shape[1] + j) % len(sizes)]) for j in range(shape[1])] for i in range(shape[0])]
        lab = [['L%d_%d' % (i, j) if lab_kind != 'dup' else 'L%d' % ((i + j) % 2) for j in range(shape[1])] for i in range(shape[0])]
        flat_t = [d for row in dfs for d in row]
        flat_l = [x for row in lab for x in row]
    if lab_kind == 'array':
        lab = np.array(lab)
    elif lab_kind == 'array-F':
        lab = np.asfortranarray(np.array(lab))        # same labels, column-major memory layout
    elif lab_kind == 'array-T':
        lab = np.array(lab).T.copy().T                  # a transposed view of the transposed grid
    elif lab_kind == 'flatlist':
        lab = list(flat_l)
    kw = {} if colname is None else {'column_name': colname}
    col = colname or 'Label'
    sgn = {'site': 'flatten_dfs', 'dims': len(shape), 'labels': lab_kind}
    try:
        out = flatten_dfs(dfs, lab, **kw)
    except Exception as e:      # noqa
        return VIOL(dict(sgn, kind='raise', exc=type(e).__name__), 'flatten_dfs raised %s: %s' % (type(e).__name__, str(e)[:120]),
                    observed={'shape': shape, 'sizes': sizes})
    exp_period = [v for t in flat_t for v in t['period'].tolist()]
    exp_label = [l for t, l in zip(flat_t, flat_l) for _ in range(len(t))]
    if col not in out.columns or out['period'].tolist() != exp_period or out[col].tolist() != exp_label:
        return VIOL(dict(sgn, kind='rows'), 'flatten_dfs rows / labels differ from in-order concatenation',
                    expected={'period': exp_period, 'label': exp_label},
                    observed={'period': out['period'].tolist(), 'label': out[col].tolist() if col in out.columns else None})
    return OK(outcome=(tuple(shape), tuple(sizes), lab_kind, colname), nontrivial=len(flat_t) > 1)


def spaces(tier, seed):
    q = tier == 'quick'
    out = [LimitTables(10 if q else 12, [1, 4, 10])]
    ls = [(N, fs, t0) for N in range(1, 9 if q else 11) for fs in (1, 4, 10) for t0 in (0, 1, 2.5, -1, -2.5)]
    # long / high-rate recordings and absolute time stamps: limit * fs of 1e5 .. 3e9 (relative tolerances become whole samples)
    ls += [(N, fs, t0) for N in (1, 2, 5) for fs in (1000, 30000) for t0 in (100, 119.5, 3600, 86400)]
    ls += [(N, fs, 'nan') for N in (3, 4, 7) for fs in (1, 4)]
    out.append(ListSpace('limit_signal', ls, eval_limit_signal,
                         describe='every time axis t0 + arange(N)/fs x full (start, stop) grid incl. None'))
    al = S.alphabet(4 if q else 6)
    opts = [(), ('trough',), ('amp',), ('amp', 'trough'), ('nosamp',), ('nosamp', 'trough', 'amp')]
    out.append(ProductSpace('split-drop', S.word_dims(al, 5) + [opts], eval_split_drop, bounds={'letters': al}))
    fl = []
    for shape in [(1,), (2,), (3,), (1, 1), (1, 2), (2, 1), (2, 2), (1, 3), (3, 1), (2, 3), (3, 2)]:
        for sizes in [(2,), (1, 3), (0, 2), (2, 0, 1)]:
            for lk in ('list', 'array', 'dup') + (('flatlist', 'array-F', 'array-T') if len(shape) == 2 else ()):
                for cn in (None, 'grp'):
                    fl.append([list(shape), list(sizes), lk, cn])
    out.append(ListSpace('flatten_dfs', fl, eval_flatten, describe='1-D lists of 1..3 and 2-D lists up to 3x2 / 2x3 of tables '
                         '(incl. empty tables) x label container x column name'))
    return out
