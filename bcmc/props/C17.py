"""C17 - interpolated phase is anchored at the cyclepoints, in range, monotone between them, finite
exactly on the span from the first to the last supplied cyclepoint.

Spaces: (i) every alternating extremum placement with gaps >= 2 on arrays of length N (tree: append the
next extremum), both starting kinds, without midpoints and with every placement of one midpoint per flank
anywhere in [start, end] (coincidences included); (ii) cyclepoints produced by find_extrema / find_zerox
on every word x boundary x first_extrema."""
import itertools
import math

import numpy as np

from bcmc.explore import Space, ProductSpace, OK, VIOL, SKIP
from bcmc import spaces as S
from bcmc.ref.extrema import ref_extrema

LEVEL = 'model_checking'
RULE = ('placement tree (node = increasing extremum positions with gaps >= 2; every node with >= 2 extrema is a case, run '
        'for both starting kinds x all midpoint placements); non-trivial = >= 3 extrema or a midpoint coinciding with an '
        'extremum; distinct = distinct phase vectors')
ASSUMPTIONS = ['anchor tolerance 1e-12', 'a decrease is allowed only on a step entering or leaving a trough sample (the wrap)']
PI = math.pi
TOL = 1e-12


def check_phase(N, ext, kinds, rises, decays):
    """Return (None, pha) or (problem-string, pha)."""
    from bycycle.cyclepoints import extrema_interpolated_phase
    peaks = np.array([p for p, k in zip(ext, kinds) if k == 'P'], dtype=int)
    troughs = np.array([p for p, k in zip(ext, kinds) if k == 'T'], dtype=int)
    # the signal is used for its length only: its dtype must not matter
    sig = np.zeros(N, dtype=(np.float64, np.float32, np.int16)[(N + len(ext) + int(ext[0])) % 3])
    if sig.dtype == np.float64 and N >= 4 and (N + len(ext)) % 2 == 0:
        sig[N // 2] = np.nan          # ... nor do its values: missing samples (NaN), an overflow (inf) inside the span
        sig[N // 3] = np.inf
        sig[int(ext[0])] = np.nan
    try:
        pha = extrema_interpolated_phase(sig, peaks, troughs,
                                         None if rises is None else np.array(rises, dtype=int),
                                         None if decays is None else np.array(decays, dtype=int))
    except Exception as e:      # noqa
        return 'RAISE:' + type(e).__name__, None
    pha = np.asarray(pha, dtype=float)
    anchors = list(ext) + list(rises or []) + list(decays or [])
    first, last = min(anchors), max(anchors)
    if len(pha) != N:
        return 'LENGTH', pha
    if np.isnan(pha[first:last + 1]).any():
        return 'NAN_INSIDE_SPAN', pha
    if not np.isnan(pha[:first]).all() or not np.isnan(pha[last + 1:]).all():
        return 'FINITE_OUTSIDE_SPAN', pha
    inside = pha[first:last + 1]
    if (inside < -PI - TOL).any() or (inside > PI + TOL).any():
        return 'RANGE', pha
    for p in peaks:
        if abs(pha[p]) > TOL:
            return 'PEAK_ANCHOR', pha
    for t in troughs:
        if abs(abs(pha[t]) - PI) > TOL:
            return 'TROUGH_ANCHOR', pha
    es = set(ext)
    for r in (rises if rises is not None else []):
        if r not in es and abs(pha[r] + PI / 2) > TOL:
            return 'RISE_ANCHOR', pha
    for d in (decays if decays is not None else []):
        if d not in es and abs(pha[d] - PI / 2) > TOL:
            return 'DECAY_ANCHOR', pha
    ts = set(int(t) for t in troughs)
    for i in range(first, last):
        if pha[i + 1] < pha[i] - TOL and not ((i + 1) in ts or i in ts):
            return 'DECREASE', pha
    return None, pha


class Placements(Space):
    def __init__(self, N, full_mid):
        self.N = N
        self.full_mid = full_mid
        self.name = 'placements-N%d' % N
        self.split_depth = 2
        self.describe = ('every alternating extremum placement (gaps >= 2) on %d samples x both starting kinds x %s'
                         % (N, 'every midpoint placement' if full_mid else 'no / canonical / coinciding midpoints'))

    def children(self, node):
        start = node[-1] + 2 if node else 0
        return [node + (p,) for p in range(start, self.N)]

    def is_case(self, node):
        return len(node) >= 2

    def bounds(self):
        return {'N': self.N, 'midpoints': 'all' if self.full_mid else 'none+canonical+ends'}

    def evaluate(self, case):
        ext = list(case)
        N = self.N
        nev, outs, nt = 0, [], len(ext) >= 3
        for first in 'PT':
            kinds = [first if i % 2 == 0 else ('T' if first == 'P' else 'P') for i in range(len(ext))]
            flanks = [(a, b, ka) for (a, ka), b in zip(zip(ext, kinds), ext[1:])]
            if self.full_mid:
                mids_iter = itertools.product(*[range(a, b + 1) for a, b, _ in flanks])
            else:
                mids_iter = [tuple((a + b) // 2 for a, b, _ in flanks), tuple(a for a, b, _ in flanks),
                             tuple(b for a, b, _ in flanks)]
            todo = [(None, None)]
            for mids in mids_iter:
                rises = [m for m, (a, b, ka) in zip(mids, flanks) if ka == 'T']
                decays = [m for m, (a, b, ka) in zip(mids, flanks) if ka == 'P']
                todo.append((rises, decays))
            # only one of the two optional midpoint arrays supplied
            if len(todo) > 1:
                r1, d1 = todo[1]
                todo += [(r1, None), (None, d1)]
            # a cyclepoint set may start / end with a flank midpoint (before the first / after the last extremum)
            r1, d1 = todo[1] if len(todo) > 1 else ([], [])
            for lead in ([None] + list(range(0, ext[0]))[-2:]):
                for trail in ([None] + list(range(ext[-1] + 1, N))[:2]):
                    if lead is None and trail is None:
                        continue
                    rr, dd = list(r1 or []), list(d1 or [])
                    if lead is not None:
                        (rr if kinds[0] == 'P' else dd).insert(0, lead)
                    if trail is not None:
                        (dd if kinds[-1] == 'P' else rr).append(trail)
                    todo.append((rr, dd))
            for rises, decays in todo:
                nev += 1
                prob, pha = check_phase(N, ext, kinds, rises, decays)
                if prob:
                    return VIOL({'kind': 'phase', 'problem': prob.split(':')[0], 'midpoints': rises is not None or decays is not None,
                         'one_sided': (rises is None) != (decays is None)},
                                'phase violates %s' % prob,
                                observed={'N': N, 'extrema': ext, 'kinds': kinds, 'rises': rises, 'decays': decays,
                                          'phase': None if pha is None else pha.tolist()}, evals=nev)
                outs.append(hash(pha.tobytes()))
                if (set(rises or []) | set(decays or [])) & set(ext):
                    nt = True
        return OK(outcome=(tuple(ext), hash(tuple(outs))), nontrivial=nt, evals=nev)


def eval_word(case):
    from bycycle.cyclepoints import find_extrema, find_zerox
    drift = 0.
    if not isinstance(case[-1], str):
        case, drift = case[:-1], case[-1]
    w = ''.join(case)
    sig = S.word_signal(w)
    if drift:
        sig = sig + drift * np.arange(len(sig))      # riding on a slope steeper than the rhythm: inverted flanks
    nev, outs = 0, []
    for b in (0, 1, 5):
        for fe in ('peak', 'trough', None):
            r = ref_extrema(sig, 64, (6, 14), boundary=b, first_extrema=fe)
            if not r['ok'] or len(r['peaks']) < 1 or len(r['troughs']) < 1 or len(r['peaks']) + len(r['troughs']) < 2:
                continue
            p, t = find_extrema(sig, 64, (6, 14), boundary=b, first_extrema=fe)
            ri, de = find_zerox(sig, p, t)
            seq = sorted([(int(v), 'P') for v in p] + [(int(v), 'T') for v in t])
            if any(b2[0] - a2[0] < 2 for a2, b2 in zip(seq[:-1], seq[1:])):
                continue      # the property quantifies over extrema at least two samples apart
            ext = [v for v, _ in seq]
            kinds = [k for _, k in seq]
            for rises, decays in ((None, None), ([int(v) for v in ri], [int(v) for v in de])):
                nev += 1
                prob, pha = check_phase(len(sig), ext, kinds, rises, decays)
                if prob:
                    return VIOL({'kind': 'phase', 'problem': prob.split(':')[0], 'midpoints': rises is not None, 'via': 'pipeline'},
                                'phase violates %s' % prob,
                                observed={'word': w, 'boundary': b, 'first_extrema': fe, 'extrema': ext, 'kinds': kinds,
                                          'rises': rises, 'decays': decays}, evals=nev)
                outs.append(hash(pha.tobytes()))
    if not nev:
        return SKIP('no admissible extrema')
    return OK(outcome=(w, drift, tuple(outs)), nontrivial=True, evals=nev)


def eval_segments(case):
    """Cyclepoints spaced exactly L samples apart, for every L up to a few hundred (segment lengths of slow rhythms at high sampling
    rates), with midpoints (quarter-cycle segments) and without (half-cycle segments), both starting kinds."""
    L, = case
    outs = []
    for first in 'PT':
        other = 'T' if first == 'P' else 'P'
        # with midpoints: E0 at 0, mid at L, E1 at 2L, mid at 3L, E2 at 4L, mid at 5L, E3 at 6L
        ext = [1, 1 + 2 * L, 1 + 4 * L, 1 + 6 * L]
        kinds = [first, other, first, other]
        mids = [1 + L, 1 + 3 * L, 1 + 5 * L]
        rises = [m for m, k in zip(mids, kinds) if k == 'T']
        decays = [m for m, k in zip(mids, kinds) if k == 'P']
        for N, e, k, r, d in ((6 * L + 4, ext, kinds, rises, decays), (3 * L + 3, [1, 1 + L, 1 + 2 * L, 1 + 3 * L], kinds, None, None)):
            prob, pha = check_phase(N, e, k, r, d)
            if prob:
                return VIOL({'kind': 'phase', 'problem': prob, 'segment_len': L, 'midpoints': r is not None},
                            'cyclepoints %d samples apart (%s midpoints), first extremum %s: phase violates %s' % (L, 'with' if r is not None else 'without', first, prob),
                            observed={'N': N, 'extrema': e, 'kinds': k, 'rises': r, 'decays': d})
            outs.append(hash(np.round(np.nan_to_num(pha), 9).tobytes()))
    return OK(outcome=(L, tuple(outs)), nontrivial=True, evals=4)


def eval_long_phase(case):
    """A recording longer than 2**16 samples with a cyclepoint every 25 samples, shifted through all 100 alignments: whatever
    block structure an implementation uses, every position within the cycle meets every block border."""
    off, with_mid = case
    N = 66000 + off
    pts = list(range(off, N - 2, 25))
    ext = pts[0::2]
    kinds = ['P' if i % 2 == 0 else 'T' for i in range(len(ext))]
    mids = pts[1::2][:len(ext) - 1]
    decays = [m for m, k in zip(mids, kinds) if k == 'P']
    rises = [m for m, k in zip(mids, kinds) if k == 'T']
    prob, pha = check_phase(N, ext, kinds, rises if with_mid else None, decays if with_mid else None)
    if prob:
        bad = None
        return VIOL({'kind': 'phase', 'problem': prob, 'long': True, 'midpoints': bool(with_mid)},
                    'recording of %d samples, cyclepoint grid offset %d: phase violates %s' % (N, off, prob))
    return OK(outcome=(off, with_mid), nontrivial=True, evals=1)


def spaces(tier, seed):
    Lmax = 400 if tier == 'quick' else 1200
    scale = [ProductSpace('segment-lengths<=%d' % Lmax, [list(range(2, Lmax + 1))], eval_segments,
                          describe='cyclepoints exactly L samples apart for every L = 2..%d, with and without midpoints, both starting kinds' % Lmax),
             ProductSpace('long-recording-x-alignments', [list(range(100)), [1, 0]], eval_long_phase,
                          describe='66000-sample recording (longer than 2**16), a cyclepoint every 25 samples, all 100 grid alignments x with / without midpoints')]
    if tier == 'quick':
        return [Placements(8, True), Placements(10, True), Placements(14, False),
                ProductSpace('words-W(6,5)', S.word_dims(S.alphabet(6), 5), eval_word, bounds={'letters': S.alphabet(6)}),
                ProductSpace('words-W(4,5)xdrift', S.word_dims(S.alphabet(4), 5) + [[-2.5, 2.5, -1.25]], eval_word,
                             describe='words riding on a steep slope (inverted flanks): midpoints from find_zerox')] + scale
    al = S.alphabet(8, seed, extra=2)
    return scale + [Placements(8, True), Placements(10, True), Placements(12, True), Placements(14, False), Placements(18, False),
            ProductSpace('words-W(10,5)', S.word_dims(al, 5), eval_word, bounds={'letters': al}),
            ProductSpace('words-W(6,6)', S.word_dims(S.alphabet(6), 6), eval_word)]
