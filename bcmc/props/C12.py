"""C12 - 3-D group results sit at the position of their signal.

Space: shapes (n0, n1) incl. non-square and size-1 extents x axis in {0, 1, (0,1)} x options in {shared dict,
1-D list (axis 0 / 1), 2-D list (axis (0,1))} x n_jobs x every completion order of the outer Pool (TLC model,
VirtualPool + real gated workers), through compute_features_3d and BycycleGroup.fit.
Oracle: axis (0,1): [i][j] == per-signal analysis; axis 0: row i == epoched reference of sigs[i];
axis 1: column j == epoched reference of sigs[:, j]."""
import contextlib
import copy
import io

import numpy as np

from bcmc.explore import Space, OK, VIOL, SKIP
from bcmc import spaces as S
from bcmc import sched
from bcmc.ref.table import diff_tables
from bcmc.ref.epoch import ref_epoched
from bcmc.props.C11 import MODEL, prepare_model, eff_workers

LEVEL = 'model_checking'
RULE = ('tree: configuration (shape, axis, option kind, n_jobs, entry, executor) -> every terminal completion order of the '
        'Pool model for the outer pool; non-trivial = more than one slot and a per-slice option list or a non-identity '
        'schedule; distinct = distinct (configuration, schedule) cases')
ASSUMPTIONS = ['outer-pool schedules from models/PoolImap.tla (see C11)', 'the epoched reference of a 2-D slice is the '
               'partition of its flattened analysis (C13)']

WORDS = ['aabeaa', 'bbadab', 'eadaba', 'daabea', 'abdeab', 'beadaa', 'aadbea', 'ebaada', 'dabbae']
FS, FR = 64, (6, 14)
OPTS = [{'threshold_kwargs': dict(S.T0)},
        {'center_extrema': 'trough', 'threshold_kwargs': dict(S.T1), 'return_samples': False},      # (the key is documented as ignored)
        {'burst_method': 'amp', 'threshold_kwargs': dict(S.TA0), 'burst_kwargs': {'amp_threshes': (.5, 1.)}},
        {'threshold_kwargs': dict(S.T1), 'find_extrema_kwargs': {'boundary': 5}},
        {'center_extrema': 'trough', 'burst_method': 'amp', 'threshold_kwargs': dict(S.TA1), 'burst_kwargs': {'amp_threshes': (.5, 1.)}},
        {'center_extrema': 'trough', 'threshold_kwargs': dict(S.T0)},
        {'threshold_kwargs': dict(S.T0, min_n_cycles=1)},
        {'threshold_kwargs': dict(S.T1, min_n_cycles=3)},
        {'center_extrema': 'trough', 'threshold_kwargs': dict(S.T1, monotonicity_threshold=.2)}]


def ntasks(shape, axis):
    return shape[0] if axis == 0 else (shape[1] if axis == 1 else shape[0] * shape[1])


def configs(tier):
    q = tier == 'quick'
    shapes = [(1, 1), (1, 2), (2, 1), (2, 3), (3, 2)] if q else [(1, 1), (1, 2), (2, 1), (2, 2), (1, 3), (3, 1), (2, 3), (3, 2), (3, 3)]
    out = []
    for sh in shapes:
        for axis in (0, 1, (0, 1)):
            for kind in ('dict', 'list', 'alias'):
                for nj in (1, 2, 4, 5):
                    if ntasks(sh, axis) > 6 and nj > 2:
                        continue        # 9 tasks with >2 workers: too many orders; covered with 1 and 2 workers
                    out.append((sh, axis, kind, nj, '3d', 'virtual'))
            out.append((sh, axis, 'list', 2, '3d-progress', 'virtual'))       # progress='tqdm' (module absent)
            out.append((sh, axis, 'dict', 3, '3d-progress', 'virtual'))
            out.append((sh, axis, 'shared', 2, 'group', 'virtual'))
            out.append((sh, axis, 'shared', 1, 'group-amp', 'virtual'))       # amp method, min_n_cycles in burst options AND thresholds
            out.append((sh, axis, 'listdup', 1, '3d', 'virtual'))              # the same signal at several positions, different options
            out.append((sh, axis, 'shared', 1, 'group-refit', 'virtual'))
            if ntasks(sh, axis) <= (3 if q else 4):
                out.append((sh, axis, 'list', 2, '3d', 'real'))
                out.append((sh, axis, 'dict', 3, '3d', 'real'))
    return out


def options_for(kind, sh, axis):
    if kind == 'dict':
        return copy.deepcopy(OPTS[1])
    if kind == 'alias':      # one dict object repeated for every slice / signal
        one = copy.deepcopy(OPTS[4])
        if axis == 0:
            return [one] * sh[0]
        if axis == 1:
            return [one] * sh[1]
        return [[one] * sh[1] for _ in range(sh[0])]
    if axis == 0:
        return copy.deepcopy(OPTS[:sh[0]])
    if axis == 1:
        return copy.deepcopy(OPTS[:sh[1]])
    return [[copy.deepcopy(OPTS[i * sh[1] + j]) for j in range(sh[1])] for i in range(sh[0])]


def reference(sigs, opts, axis, kind):
    from bycycle.features import compute_features
    n0, n1 = sigs.shape[:2]
    exp = [[None] * n1 for _ in range(n0)]
    if axis == (0, 1):
        for i in range(n0):
            for j in range(n1):
                o = copy.deepcopy(opts if kind not in ('list', 'alias') else opts[i][j])
                o.pop('return_samples', None)
                exp[i][j] = compute_features(np.array(sigs[i, j]), FS, FR, return_samples=True, **o)
    elif axis == 0:
        for i in range(n0):
            o = copy.deepcopy(opts if kind not in ('list', 'alias') else opts[i])
            tabs, _, _ = ref_epoched(sigs[i], FS, FR, o)
            for j in range(n1):
                exp[i][j] = tabs[j]
    else:
        for j in range(n1):
            o = copy.deepcopy(opts if kind not in ('list', 'alias') else opts[j])
            tabs, _, _ = ref_epoched(np.ascontiguousarray(sigs[:, j]), FS, FR, o)
            for i in range(n0):
                exp[i][j] = tabs[i]
    return exp


class Schedules3D(Space):
    name = 'configs3d-x-schedules'
    split_depth = 2

    def __init__(self, tier):
        self.cfgs = configs(tier)
        self.describe = '%d configurations x every completion order of the outer pool' % len(self.cfgs)

    def _orders(self, cfg):
        sh, axis, kind, nj = cfg[:4]
        n = ntasks(sh, axis)
        return MODEL[(n, eff_workers(nj, n))][0]

    def children(self, node):
        if node == ():
            return [(i,) for i in range(len(self.cfgs))]
        if len(node) == 1:
            return [node + (k,) for k in range(len(self._orders(self.cfgs[node[0]])))]
        return []

    def is_case(self, node):
        return len(node) == 2

    def case(self, node):
        sh, axis, kind, nj, entry, execu = self.cfgs[node[0]]
        return {'shape': list(sh), 'axis': list(axis) if isinstance(axis, tuple) else axis, 'options': kind, 'n_jobs': nj,
                'entry': entry, 'executor': execu, 'order': list(self._orders(self.cfgs[node[0]])[node[1]])}

    def bounds(self):
        return {'configurations': len(self.cfgs)}

    def evaluate(self, c):
        from bycycle.group import compute_features_3d
        from bycycle import BycycleGroup
        sh = tuple(c['shape'])
        axis = tuple(c['axis']) if isinstance(c['axis'], list) else c['axis']
        kind, nj, order = c['options'], c['n_jobs'], list(c['order'])
        n0, n1 = sh
        sigs = np.array([[S.word_signal(WORDS[i * n1 + j]) for j in range(n1)] for i in range(n0)])
        if kind == 'listdup':
            sigs = np.array([[S.word_signal(WORDS[(i + j) % 2]) for j in range(n1)] for i in range(n0)])
            kind = 'list'
        sgn = {'entry': c['entry'], 'executor': c['executor'], 'options': c['options'], 'axis': repr(axis), 'square': n0 == n1}
        if c['entry'] == 'group-amp':
            opts = {'burst_method': 'amp', 'threshold_kwargs': dict(S.TA0), 'burst_kwargs': {'amp_threshes': (.5, 1.), 'min_n_cycles': 4}}
            kind_ref = 'dict'
        elif c['entry'].startswith('group'):
            opts = {'center_extrema': 'trough', 'threshold_kwargs': dict(S.T0)}
            kind_ref = 'dict'
        else:
            opts = options_for(kind, sh, axis)
            kind_ref = kind
        try:
            exp = reference(sigs, opts, axis, kind_ref)
        except Exception as e:      # noqa
            return SKIP('reference precondition: %s' % type(e).__name__)
        extra = {}
        fortran = (n0 + 2 * n1 + nj + len(order) + (kind == 'list')) % 2 == 1       # same values, column-major memory layout
        sgn['layout'] = 'F' if fortran else 'C'

        def arr():
            return np.asfortranarray(sigs) if fortran else sigs.copy()

        def run():
            with contextlib.redirect_stdout(io.StringIO()):
                if c['entry'].startswith('3d'):
                    with sched.tqdm_mode('absent' if c['entry'] == '3d-progress' else 'leave'):
                        return compute_features_3d(arr(), FS, FR, compute_features_kwargs=opts if kind == 'alias' else copy.deepcopy(opts),
                                                   axis=axis, return_samples=True, n_jobs=nj,
                                                   progress='tqdm' if c['entry'] == '3d-progress' else None), None
                bg = BycycleGroup(center_extrema='peak', thresholds=dict(S.T1))
                bg.center_extrema = 'trough'          # constructed with other settings, attributes re-assigned before the fit
                bg.thresholds = dict(S.T0)
                if c['entry'] == 'group-amp':
                    bg = BycycleGroup(burst_method='amp', thresholds=dict(S.TA0), burst_kwargs={'amp_threshes': (.5, 1.), 'min_n_cycles': 4})
                if c['entry'] == 'group-refit':
                    # the same object was fitted before on another array (different shape): nothing may remain of it
                    other = np.array([[S.word_signal(WORDS[-1 - k]) for k in range(2)]] * 1) if (n0, n1) != (1, 2) else \
                        np.array([[S.word_signal(WORDS[-1])], [S.word_signal(WORDS[-2])]])
                    saved, sched.VirtualPool.order = sched.VirtualPool.order, None
                    bg.fit(other, FS, FR, axis=(0, 1), n_jobs=1)
                    # ... and then on the VERY array object of the final fit, in another axis mode
                    same = arr()
                    bg.fit(same, FS, FR, axis={0: 1, 1: (0, 1)}.get(axis, 0), n_jobs=1)
                    sched.VirtualPool.order = saved
                    bg.fit(same, FS, FR, axis=axis, n_jobs=nj)
                    return bg.df_features, bg
                if (n0 + n1 + nj) % 2:
                    bg.fit(arr(), FS, FR, axis, nj)          # axis and n_jobs passed positionally (documented order)
                else:
                    bg.fit(arr(), FS, FR, axis=axis, n_jobs=nj)
                return bg.df_features, bg
        try:
            if c['executor'] == 'virtual':
                with sched.patched_pool(order):
                    got, obj = run()
                    if sched.VirtualPool.constructed == 0:
                        extra['seam_not_exercised'] = 1
                    if sched.VirtualPool.mismatch:
                        extra['schedule_not_applicable_task_count_differs'] = 1
            else:
                if axis == 0:
                    keys = [np.ascontiguousarray(sigs[i]).tobytes() for i in range(n0)]
                elif axis == 1:
                    keys = [np.ascontiguousarray(sigs[:, j]).tobytes() for j in range(n1)]
                else:
                    keys = [np.ascontiguousarray(sigs[i, j]).tobytes() for i in range(n0) for j in range(n1)]
                with sched.RealGate(keys, order) as g:
                    got, obj = run()
                    seen, timeouts = g.observed()
                extra['order_not_enforced' if (timeouts or seen != tuple(order)) else 'order_enforced_in_real_workers'] = 1
        except sched.HarnessError:
            raise
        except Exception as e:      # noqa
            import traceback
            return VIOL(dict(sgn, kind='raise', exc=type(e).__name__), 'compute_features_3d raised %s: %s' % (type(e).__name__, str(e)[:150]),
                        observed={'case': c, 'tb': traceback.format_exc()[-1200:]})
        if not isinstance(got, list) or len(got) != n0 or any(not isinstance(r, list) or len(r) != n1 for r in got):
            return VIOL(dict(sgn, kind='shape'), 'result is not a nested list of shape %s' % (sh,), observed=c)
        for i in range(n0):
            for j in range(n1):
                dd = diff_tables(got[i][j], exp[i][j])
                if dd:
                    where = [(a, b) for a in range(n0) for b in range(n1) if diff_tables(got[i][j], exp[a][b]) is None]
                    return VIOL(dict(sgn, kind='position'), 'entry [%d][%d] is not the analysis of the signal at that position (%s); it '
                                'equals the expected table of %s' % (i, j, dd, where), observed=c)
        if obj is not None:
            if len(obj) != n0 or len(obj.models) != n0 or any(len(r) != n1 for r in obj.models):
                return VIOL(dict(sgn, kind='models'), 'BycycleGroup.models does not have the shape of the fitted array', observed=c)
            for i in range(n0):
                for j in range(n1):
                    m = obj.models[i][j]
                    if diff_tables(m.df_features, exp[i][j]) or not np.array_equal(m.sig, sigs[i, j]):
                        return VIOL(dict(sgn, kind='models'), 'BycycleGroup.models[%d][%d] does not mirror its slot' % (i, j), observed=c)
        return OK(outcome=(sh, repr(axis), kind, nj, c['entry'], c['executor'], tuple(order)),
                  nontrivial=n0 * n1 > 1 and (kind == 'list' or order != sorted(order)), extra=extra or None)


def eval_big(case):
    """Shapes with MANY slices (33 columns) and slices whose flattened length exceeds 2**16 samples, one worker (identity schedule):
    every entry against the per-signal analysis / the partition of the flattened slice."""
    from bycycle.features import compute_features
    from bycycle.group import compute_features_3d
    kind, axis = case
    axis = tuple(axis) if isinstance(axis, list) else axis
    if kind == 'many':
        n0, n1 = 2, 33
        fs, fr = FS, FR
        sigs = np.array([[S.word_signal(WORDS[(i * n1 + j) % 9][j % 4:] + WORDS[(i * n1 + j) % 9][:j % 4]) * (1. + .125 * j) for j in range(n1)] for i in range(n0)])
    else:
        n0, n1 = 2, 5
        fs, fr = 1000, (13, 30)
        x = S.long_signal('@B')
        sigs = np.array([[x[(i * n1 + j) * 1000:(i * n1 + j) * 1000 + 14000] for j in range(n1)] for i in range(n0)])
    opts = {'center_extrema': 'trough', 'threshold_kwargs': dict(S.T0)}
    exp = [[None] * n1 for _ in range(n0)]
    if axis == (0, 1):
        for i in range(n0):
            for j in range(n1):
                exp[i][j] = compute_features(np.array(sigs[i, j]), fs, fr, return_samples=True, **copy.deepcopy(opts))
    elif axis == 0:
        for i in range(n0):
            tabs, _, _ = ref_epoched(sigs[i], fs, fr, copy.deepcopy(opts))
            for j in range(n1):
                exp[i][j] = tabs[j]
    else:
        for j in range(n1):
            tabs, _, _ = ref_epoched(np.ascontiguousarray(sigs[:, j]), fs, fr, copy.deepcopy(opts))
            for i in range(n0):
                exp[i][j] = tabs[i]
    sgn = {'entry': '3d', 'big': kind, 'axis': repr(axis), 'options': 'dict'}
    try:
        with sched.patched_pool(None), contextlib.redirect_stdout(io.StringIO()):
            got = compute_features_3d(sigs.copy(), fs, fr, compute_features_kwargs=copy.deepcopy(opts), axis=axis, return_samples=True, n_jobs=1)
    except Exception as e:      # noqa
        return VIOL(dict(sgn, kind='raise', exc=type(e).__name__), 'compute_features_3d raised %s: %s' % (type(e).__name__, str(e)[:150]))
    if not isinstance(got, list) or len(got) != n0 or any(len(r) != n1 for r in got):
        return VIOL(dict(sgn, kind='shape'), 'result is not a nested list of shape (%d, %d)' % (n0, n1))
    for i in range(n0):
        for j in range(n1):
            dd = diff_tables(got[i][j], exp[i][j])
            if dd:
                where = [(a, b) for a in range(n0) for b in range(n1) if diff_tables(got[i][j], exp[a][b]) is None][:3]
                return VIOL(dict(sgn, kind='position'), 'entry [%d][%d] is not the analysis of the signal / epoch at that position (%s); it equals the '
                            'expected table of %s' % (i, j, dd, where))
    return OK(outcome=(kind, repr(axis)), nontrivial=True, evals=n0 * n1)


def spaces(tier, seed):
    cfgs = configs(tier)
    pairs = sorted({(ntasks(c[0], c[1]), eff_workers(c[3], ntasks(c[0], c[1]))) for c in cfgs})
    prepare_model(pairs)
    from bcmc.explore import ListSpace
    big = [[k, a] for k in ('many', 'large') for a in (0, 1, [0, 1])]
    return [Schedules3D(tier), ListSpace('big-arrays', big, eval_big,
                                         describe='(2, 33, 48) array (33 slices along axis 1) and (2, 5, 14000) array (flattened slices of 70000 / 28000 samples) x axis 0, 1, (0,1)')]


def run_extra(tier, seed, jobs, log):
    from bcmc.props.C11 import run_extra as rx
    return rx(tier, seed, jobs, log)
