---- MODULE PoolImap ----
(* multiprocessing.Pool(W).imap(f, tasks 0..N-1): tasks enter a FIFO, at most W are in flight,   *)
(* any in-flight task may complete next, the next queued task is dispatched as soon as a worker  *)
(* is free (eager dispatch).  `done` is the completion order - the schedule.  TLC enumerates     *)
(* every reachable state; the terminal states' `done` sequences are replayed against the         *)
(* implementation (bcmc/sched.py: VirtualPool and RealPoolGate).                                 *)
EXTENDS Naturals, Sequences, FiniteSets
CONSTANTS N, W
VARIABLES next, inflight, done
vars == <<next, inflight, done>>
Init == next = 0 /\ inflight = {} /\ done = <<>>
Dispatch == /\ next < N /\ Cardinality(inflight) < W
            /\ inflight' = inflight \cup {next} /\ next' = next + 1 /\ UNCHANGED done
Complete(t) == /\ t \in inflight
               /\ (next = N \/ Cardinality(inflight) = W)
               /\ inflight' = inflight \ {t} /\ done' = Append(done, t) /\ UNCHANGED next
Next == Dispatch \/ \E t \in inflight : Complete(t)
Spec == Init /\ [][Next]_vars
DoneSet == {done[i] : i \in 1..Len(done)}
Inv == /\ Cardinality(inflight) <= W /\ next <= N
       /\ inflight \cup DoneSet = 0..(next - 1)          \* FIFO dispatch, nothing lost
       /\ inflight \cap DoneSet = {}
       /\ Cardinality(DoneSet) = Len(done)                \* every task completes at most once
====
